//! `msgwin` engine (property C02, window part): 2–4 real `MDK` clients (via `world::World`, memory / SQLite) created
//! with SMALL `MdkConfig` windows (`out_of_order_tolerance`, `maximum_forward_distance`, `max_past_epochs`), bursts of
//! application messages in several epochs (self-update commits in between), and explicit deliveries of the wrappers
//! in a generated order.  After every command one observation line `<result> | <view of the acting client>`.
//!
//!   msgwin                    a fresh world
//!   client <i> <mem|sql> <T> <F> <P>
//!   group                     client 0 creates the group with every other client, merges; the others join  → `ok`
//!   send <i> <tok>            create_message: rumor kind / tags / created_at are functions of <tok>          → `ev=<n> mid=<k>`
//!   commit <i>                self_update + merge_pending_commit at i                                        → `ev=<n>`
//!   deliver <j> <ev>          process_message                                                                 → `app:<mid>` | `commit` | `unprocessable` | `err:<Variant>` …
//!   view <j>
//! view: `E<mls epoch> X[mid:author:state:epoch:tok:kind:ts:tags:idok,…] K[ev:state:epoch:mid,…]`
//!   (X = get_messages, sorted by mid; K = processed_messages records of the application-message wrappers)

use std::collections::HashMap;
use std::io::{self, BufRead, Write};
use std::panic::{AssertUnwindSafe, catch_unwind};

use mdk_core::messages::MessageProcessingResult;
use mdk_storage_traits::messages::MessageStorage;
use mdk_storage_traits::groups::Pagination;
use mdk_storage_traits::messages::types::{MessageState, ProcessedMessageState};
use nostr::{EventBuilder, EventId, Kind, Tag, TagKind, Tags, Timestamp};
use openmls_traits::OpenMlsProvider;

use crate::world::{Mdk, World};

macro_rules! wm {
    ($m:expr, |$s:ident| $e:expr) => {
        match $m {
            Mdk::Mem($s) => $e,
            Mdk::Sql($s) => $e,
        }
    };
}

fn u(s: &str) -> u64 {
    s.parse().unwrap_or_else(|_| panic!("nat expected: {s}"))
}

/// the rumor fields the sender derives from the content token
fn kind_of(tok: u64) -> u16 {
    9 + (tok % 3) as u16
}
fn tags_of(shape: u64) -> Tags {
    let v: Vec<Tag> = match shape {
        0 => vec![],
        1 => vec![Tag::custom(TagKind::t(), ["verif"])],
        2 => vec![Tag::custom(TagKind::e(), ["11".repeat(32)])],
        _ => vec![Tag::custom(TagKind::t(), ["a"]), Tag::custom(TagKind::t(), ["b"])],
    };
    Tags::from_list(v)
}

struct App {
    w: World,
    is_msg: Vec<bool>,               // per event number: application message (true) or commit
    mids: HashMap<EventId, usize>,   // rumor id → small number by first occurrence
}

impl App {
    fn new() -> Self {
        App { w: World::new(), is_msg: vec![], mids: HashMap::new() }
    }

    fn mid(&mut self, id: EventId) -> usize {
        let n = self.mids.len();
        *self.mids.entry(id).or_insert(n)
    }

    fn x(&mut self, line: &str) -> String {
        let t: Vec<&str> = line.split_whitespace().collect();
        self.w.exec(&t)
    }

    fn group(&mut self) -> String {
        let n = self.w.clients.len();
        let mut kps = vec![];
        for j in 1..n {
            let r = self.x(&format!("kp {j}"));
            kps.push(r.strip_prefix("kp=").expect("kp").to_string());
        }
        let r = self.x(&format!("create 0 0 1 1 {}", if kps.is_empty() { "-".to_string() } else { kps.join(",") }));
        assert!(r.starts_with("ok"), "create: {r}");
        assert_eq!(self.x("merge 0"), "ok");
        for j in 1..n {
            assert_eq!(self.x(&format!("welcome {j} {} 0", j - 1)), "ok");
            assert_eq!(self.x(&format!("accept {j} {}", j - 1)), "ok");
        }
        "ok".into()
    }

    fn send(&mut self, i: usize, tok: u64) -> String {
        let gid = match self.w.clients[i].gid.clone() { Some(g) => g, None => return "err:NoGroup".into() };
        let pk = self.w.clients[i].keys.public_key();
        let mut rumor = EventBuilder::new(Kind::from(kind_of(tok)), format!("msg{tok}"))
            .tags(tags_of(tok % 4))
            .custom_created_at(Timestamp::from(self.w.t0 + 100 + tok))
            .build(pk);
        rumor.ensure_id();
        let rid = rumor.id.unwrap();
        let r = wm!(self.w.clients[i].mdk.as_ref().unwrap(), |m| m.create_message(&gid, rumor));
        match r {
            Ok(ev) => {
                self.w.events.push(ev);
                self.is_msg.resize(self.w.events.len(), false);
                let n = self.w.events.len() - 1;
                self.is_msg[n] = true;
                format!("ev={} mid={}", n, self.mid(rid))
            }
            Err(e) => format!("err:{}", variant(&format!("{e:?}"))),
        }
    }

    fn commit(&mut self, i: usize) -> String {
        let r = self.x(&format!("selfupdate {i} -"));
        self.is_msg.resize(self.w.events.len(), false);
        if !r.starts_with("ev=") {
            return r;
        }
        let m = self.x(&format!("merge {i}"));
        if m != "ok" {
            return format!("merge-{m}");
        }
        r.split(' ').next().unwrap().to_string()
    }

    fn deliver(&mut self, j: usize, n: usize) -> String {
        let ev = self.w.events[n].clone();
        let r = wm!(self.w.clients[j].mdk.as_ref().unwrap(), |m| m.process_message(&ev));
        match r {
            Ok(MessageProcessingResult::ApplicationMessage(msg)) => format!("app:{}", self.mid(msg.id)),
            Ok(MessageProcessingResult::Commit { .. }) => "commit".into(),
            Ok(MessageProcessingResult::Unprocessable { .. }) => "unprocessable".into(),
            Ok(MessageProcessingResult::PreviouslyFailed) => "previously_failed".into(),
            Ok(other) => format!("other:{}", variant(&format!("{other:?}"))),
            Err(e) => format!("err:{}", variant(&format!("{e:?}"))),
        }
    }

    fn who(&self, pk: &nostr::PublicKey) -> String {
        self.w.clients.iter().position(|c| c.keys.public_key() == *pk).map(|i| i.to_string()).unwrap_or_else(|| "x".into())
    }

    fn view(&mut self, j: usize) -> String {
        let gid = match self.w.clients[j].gid.clone() { Some(g) => g, None => return "nogroup".into() };
        let (epoch, rows, recs) = wm!(self.w.clients[j].mdk.as_ref().unwrap(), |m| {
            let epoch = m.load_mls_group(&gid).ok().flatten().map(|g| g.epoch().as_u64() as i64).unwrap_or(-1);
            let rows = m.get_messages(&gid, Some(Pagination::new(Some(10000), Some(0)))).ok();
            let storage = m.provider.storage();
            let mut recs = vec![];
            for (n, e) in self.w.events.iter().enumerate() {
                if !self.is_msg.get(n).copied().unwrap_or(false) {
                    continue;
                }
                if let Ok(Some(r)) = storage.find_processed_message_by_event_id(&e.id) {
                    recs.push((n, r));
                }
            }
            (epoch, rows, recs)
        });
        let Some(rows) = rows else { return format!("E{epoch} X[err]") };
        let t0 = self.w.t0;
        let mut rs: Vec<(usize, String)> = vec![];
        for r in rows {
            let st = match r.state {
                MessageState::Created => "c",
                MessageState::Processed => "p",
                MessageState::Deleted => "d",
                MessageState::EpochInvalidated => "x",
            };
            let computed = EventId::new(&r.pubkey, &r.created_at, &r.kind, &r.tags, &r.content);
            let idok = computed == r.id && r.event.id == Some(r.id) && r.event.pubkey == r.pubkey && r.event.created_at == r.created_at && r.event.kind == r.kind && r.event.tags == r.tags && r.event.content == r.content;
            let tags = (0..4u64).find(|k| tags_of(*k) == r.tags).map(|k| k.to_string()).unwrap_or_else(|| "?".into());
            let tok = r.content.strip_prefix("msg").map(|x| x.to_string()).unwrap_or_else(|| "?".into());
            let mid = self.mid(r.id);
            rs.push((mid, format!(
                "{}:{}:{}:{}:{}:{}:{}:{}:{}",
                mid, self.who(&r.pubkey), st, r.epoch.map(|e| e.to_string()).unwrap_or("-".into()), tok, r.kind.as_u16(),
                r.created_at.as_secs() as i64 - t0 as i64, tags, idok as u8
            )));
        }
        rs.sort();
        let ks: Vec<String> = recs
            .into_iter()
            .map(|(n, r)| {
                let st = match r.state {
                    ProcessedMessageState::Created => "c",
                    ProcessedMessageState::Processed => "p",
                    ProcessedMessageState::ProcessedCommit => "k",
                    ProcessedMessageState::Failed => "f",
                    ProcessedMessageState::EpochInvalidated => "x",
                    ProcessedMessageState::Retryable => "r",
                };
                let mid = match r.message_event_id {
                    Some(id) => self.mids.get(&id).map(|k| k.to_string()).unwrap_or_else(|| "?".into()),
                    None => "-".into(),
                };
                format!("{}:{}:{}:{}", n, st, r.epoch.map(|e| e.to_string()).unwrap_or("-".into()), mid)
            })
            .collect();
        format!("E{} X[{}] K[{}]", epoch, rs.into_iter().map(|x| x.1).collect::<Vec<_>>().join(","), ks.join(","))
    }

    fn exec(&mut self, t: &[&str]) -> (String, Option<usize>) {
        match t[0] {
            "msgwin" | "world" => {
                *self = App::new();
                ("ok".into(), None)
            }
            "client" => {
                let r = self.x(&format!("client {} {} 5 {} {} {}", t[1], t[2], t[3], t[4], t[5]));
                (r, None)
            }
            "group" => (self.group(), Some(0)),
            "send" => (self.send(u(t[1]) as usize, u(t[2])), Some(u(t[1]) as usize)),
            "commit" => (self.commit(u(t[1]) as usize), Some(u(t[1]) as usize)),
            "deliver" => {
                let (j, n) = (u(t[1]) as usize, u(t[2]) as usize);
                if j >= self.w.clients.len() || n >= self.w.events.len() {
                    return ("bad-op".into(), None);
                }
                (self.deliver(j, n), Some(j))
            }
            "view" => ("view".into(), Some(u(t[1]) as usize)),
            _ => ("bad-op".into(), None),
        }
    }
}

fn variant(d: &str) -> String {
    d.chars().take_while(|c| c.is_alphanumeric()).collect()
}

pub fn main(_args: &[String]) -> i32 {
    std::panic::set_hook(Box::new(|_| {}));
    if std::env::var("VH_TRACE").is_ok() {
        let _ = tracing_subscriber::fmt().with_env_filter(std::env::var("VH_TRACE").unwrap()).with_writer(std::io::stderr).try_init();
    }
    let stdin = io::stdin();
    let out = io::stdout();
    let mut out = out.lock();
    let mut app = App::new();
    for line in stdin.lock().lines() {
        let line = line.unwrap();
        let t: Vec<&str> = line.split_whitespace().collect();
        if t.is_empty() || t[0].starts_with('#') {
            continue;
        }
        let r = catch_unwind(AssertUnwindSafe(|| app.exec(&t)));
        let (res, who) = match r {
            Ok(x) => x,
            Err(_) => ("panic".into(), None),
        };
        let view = match who {
            Some(j) if j < app.w.clients.len() && app.w.clients[j].mdk.is_some() => catch_unwind(AssertUnwindSafe(|| app.view(j))).unwrap_or_else(|_| "view-panic".into()),
            _ => "-".into(),
        };
        writeln!(out, "{res} | {view}").unwrap();
        out.flush().unwrap();
    }
    0
}
