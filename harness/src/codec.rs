//! `codec` engine (property C15): executes abstract codec operations (one per line on stdin)
//! against the REAL mdk-core code through its public API and prints one canonical observation per
//! line.  The same lines are replayed on the Lean model (`mdkdrv codec`).
//!
//! Output convention: `<comparable part>[ | <implementation-only oracle fields>]`.
//! Everything left of ` | ` is diffed against the model; the right part is read only by the oracle.
//!
//! How the private functions are reached through public entry points:
//!   * `as_raw().tls_serialize_detached()`  – `MDK::create_group` + `MDK::update_group_data` +
//!     `merge_pending_commit`, then the bytes of the 0xF2EE extension of the real `MlsGroup`;
//!   * `deserialize_bytes` (+ `from_raw`)  – `NostrGroupDataExtension::from_group_context` on a
//!     `GroupContext` TLS-deserialised from hand-built bytes that carry the extension payload;
//!   * `validate_key_package_tags`          – `MDK::parse_key_package` on an event whose content is a
//!     real key package (so the verdict is decided by the tags / binding checks);
//!   * `validate_welcome_event`             – `MDK::process_welcome` (`InvalidWelcomeMessage` ⇔ refused);
//!   * `extract_nostr_group_id`             – `MDK::process_message` (error kind of step 1);
//!   * imeta                                 – `EncryptedMediaManager::{create,parse}_imeta_tag`.

use std::io::{self, BufRead, Write};
use std::panic::{AssertUnwindSafe, catch_unwind};

use mdk_core::encrypted_media::types::{EncryptedMediaError, EncryptedMediaUpload};
use mdk_core::extension::NostrGroupDataExtension;
use mdk_core::groups::{NostrGroupConfigData, NostrGroupDataUpdate};
use mdk_core::{Error, MDK};
use mdk_memory_storage::{MdkMemoryStorage, ValidationLimits};
use nostr::base64::Engine;
use nostr::base64::engine::general_purpose::STANDARD as BASE64;
use nostr::{Event, EventBuilder, EventId, Keys, Kind, PublicKey, RelayUrl, SecretKey, Tag, UnsignedEvent};
use openmls::extensions::{Extension, ExtensionType};
use openmls::group::GroupContext;
use tls_codec::{Deserialize as TlsDeserialize, Serialize as TlsSerialize, VLBytes};

type M = MDK<MdkMemoryStorage>;

const FIXTURE_GID: [u8; 32] = [0xA5; 32];
const OTHER_NAMES: [&str; 20] = [
    "I", "E", "H", "Relays", "Encoding", "ENCODING", "Client", "MLS_PROTOCOL_VERSION", "mls_protocol_versio",
    "imeta ", "Imeta", "x", "p", "d", "t", "mls_ciphersuite2", "expiration", "relay", "Mls_Extensions", "IMETA",
];

fn new_mdk() -> M {
    let limits = ValidationLimits::default()
        .with_max_group_name_length(1 << 20)
        .with_max_group_description_length(1 << 20)
        .with_max_relays_per_group(4096)
        .with_max_relays_per_welcome(4096)
        .with_max_relay_url_length(1 << 16);
    MDK::new(MdkMemoryStorage::with_limits(limits))
}

fn pool_keys(i: u8) -> Keys {
    let mut sk = [0u8; 32];
    sk[0] = 0x11;
    sk[31] = i + 1;
    Keys::new(SecretKey::from_slice(&sk).unwrap())
}

fn unhex(s: &str) -> Option<Vec<u8>> {
    if s == "-" { Some(vec![]) } else { hex::decode(s).ok() }
}
fn hexlist(s: &str) -> Option<Vec<Vec<u8>>> {
    if s == "-" { return Some(vec![]); }
    s.split(',').map(|x| hex::decode(x).ok()).collect()
}
fn utf8(b: Vec<u8>) -> Option<String> { String::from_utf8(b).ok() }
fn field<'a>(t: &'a [&'a str], key: &str) -> Option<&'a str> {
    t.iter().find_map(|x| x.strip_prefix(key).and_then(|r| r.strip_prefix('=')))
}

// ---- tags -------------------------------------------------------------------------------------

fn name_of(tok: &str) -> Option<String> {
    Some(match tok {
        "pv" => "mls_protocol_version".into(),
        "cs" => "mls_ciphersuite".into(),
        "ext" => "mls_extensions".into(),
        "relays" => "relays".into(),
        "i" => "i".into(),
        "e" => "e".into(),
        "h" => "h".into(),
        "client" => "client".into(),
        "encoding" => "encoding".into(),
        "imeta" => "imeta".into(),
        "dash" => "-".into(),
        o if o.starts_with('o') => OTHER_NAMES.get(o[1..].parse::<usize>().ok()?)?.to_string(),
        _ => return None,
    })
}
fn tok_of(name: &str) -> String {
    match name {
        "mls_protocol_version" => "pv".into(),
        "mls_ciphersuite" => "cs".into(),
        "mls_extensions" => "ext".into(),
        "relays" | "i" | "e" | "h" | "client" | "encoding" | "imeta" => name.into(),
        "-" => "dash".into(),
        o => match OTHER_NAMES.iter().position(|x| *x == o) {
            Some(k) => format!("o{k}"),
            None => format!("?{o}"),
        },
    }
}

/// `tags=` syntax: tags separated by `;`, each `name` (no values) or `name:v1,v2` (hex values, empty
/// hex = empty string).  `subst` maps `$TOKENS` to literal strings.
fn parse_tags(s: &str, subst: &[(&str, String)]) -> Option<Vec<Tag>> {
    let mut res = Vec::new();
    if s == "-" { return Some(res); }
    for part in s.split(';') {
        let (n, vals) = match part.split_once(':') {
            Some((n, v)) => (n, Some(v)),
            None => (part, None),
        };
        let mut items = vec![name_of(n)?];
        if let Some(v) = vals {
            for x in v.split(',') {
                if let Some((_, lit)) = subst.iter().find(|(k, _)| *k == x) {
                    items.push(lit.clone());
                } else {
                    items.push(utf8(hex::decode(x).ok()?)?);
                }
            }
        }
        res.push(Tag::parse(items).ok()?);
    }
    Some(res)
}
fn show_tags(tags: &[Tag], subst: &[(&str, String)]) -> String {
    let mut parts = Vec::new();
    for t in tags {
        let sl = t.as_slice();
        let mut s = tok_of(&sl[0]);
        if sl.len() > 1 {
            s.push(':');
            let vs: Vec<String> = sl[1..].iter().map(|v| {
                match subst.iter().find(|(_, lit)| lit == v) {
                    Some((k, _)) => k.to_string(),
                    None => hex::encode(v.as_bytes()),
                }
            }).collect();
            s.push_str(&vs.join(","));
        }
        parts.push(s);
    }
    if parts.is_empty() { "-".into() } else { parts.join(";") }
}

// ---- extension --------------------------------------------------------------------------------

fn err_kind(e: &Error) -> &'static str {
    match e {
        Error::Tls(_) => "tls",
        Error::ExtensionFormatError(_) => "trailing",
        Error::InvalidExtensionVersion(_) => "version0",
        Error::Utf8(_) => "utf8",
        Error::RelayUrl(_) => "relayurl",
        Error::InvalidImageHashLength => "hashlen",
        Error::InvalidImageKeyLength => "keylen",
        Error::InvalidImageNonceLength => "noncelen",
        Error::InvalidImageUploadKeyLength => "uploadlen",
        Error::NostrGroupDataExtensionNotFound => "notfound",
        Error::UnexpectedExtensionType => "unexpectedtype",
        _ => "other",
    }
}
fn opt_hex(o: Option<&[u8]>) -> String { o.map(hex::encode).unwrap_or_else(|| "-".into()) }
fn list_or_dash(v: Vec<String>) -> String { if v.is_empty() { "-".into() } else { v.join(",") } }
fn hex_or_e(b: &[u8]) -> String { if b.is_empty() { "-".into() } else { hex::encode(b) } }

fn show_ext(x: &NostrGroupDataExtension) -> String {
    format!(
        "v={} gid={} name={} desc={} admins={} relays={} ih={} ik={} in={} iu={}",
        x.version,
        hex::encode(x.nostr_group_id),
        hex_or_e(x.name.as_bytes()),
        hex_or_e(x.description.as_bytes()),
        list_or_dash(x.admins.iter().map(|p| hex::encode(p.as_bytes())).collect()),
        list_or_dash(x.relays.iter().map(|r| hex::encode(r.to_string().as_bytes())).collect()),
        opt_hex(x.image_hash.as_ref().map(|a| &a[..])),
        opt_hex(x.image_key.as_ref().map(|a| &a[..])),
        opt_hex(x.image_nonce.as_ref().map(|a| &a[..])),
        opt_hex(x.image_upload_key.as_ref().map(|a| &a[..])),
    )
}

/// a GroupContext whose only extension is Unknown(0xF2EE, payload)
fn group_context_with(payload: &[u8]) -> Result<GroupContext, String> {
    let mut ext = Vec::new();
    ext.extend_from_slice(&NostrGroupDataExtension::EXTENSION_TYPE.to_be_bytes());
    ext.extend(VLBytes::new(payload.to_vec()).tls_serialize_detached().map_err(|e| e.to_string())?);
    let mut b = Vec::new();
    b.extend_from_slice(&1u16.to_be_bytes()); // ProtocolVersion::Mls10
    b.extend_from_slice(&1u16.to_be_bytes()); // MLS_128_DHKEMX25519_AES128GCM_SHA256_Ed25519
    b.extend(VLBytes::new(vec![7u8; 16]).tls_serialize_detached().unwrap()); // group id
    b.extend_from_slice(&0u64.to_be_bytes()); // epoch
    b.extend(VLBytes::new(vec![0u8; 32]).tls_serialize_detached().unwrap()); // tree hash
    b.extend(VLBytes::new(vec![0u8; 32]).tls_serialize_detached().unwrap()); // confirmed transcript hash
    b.extend(VLBytes::new(ext).tls_serialize_detached().map_err(|e| e.to_string())?); // extensions
    GroupContext::tls_deserialize_exact(&b).map_err(|e| format!("{e:?}"))
}

fn ext_decode(bytes: &[u8]) -> String {
    let gc = match group_context_with(bytes) {
        Ok(g) => g,
        Err(e) => return format!("harness-error group-context {e}"),
    };
    match NostrGroupDataExtension::from_group_context(&gc) {
        Ok(x) => format!("ok {}", show_ext(&x)),
        Err(e) => format!("err {}", err_kind(&e)),
    }
}

struct Ctx {
    mdk: M,
    mdk_b: M,
    pool: Vec<Keys>,
    other: Keys,
    // key-package fixtures (author = pool[1]): (content, ref hex)
    kp_real: (String, String),
    kp_other: (String, String),
    kp_foreign: (String, String),
    kp_bytes: Vec<u8>,
    fixture_group: mdk_core::GroupId,
}

fn arr<const N: usize>(b: &[u8]) -> Option<[u8; N]> { b.try_into().ok() }

fn ref_of_tags(tags: &[Tag]) -> String {
    tags.iter().find(|t| t.as_slice()[0] == "i").map(|t| t.as_slice()[1].clone()).unwrap_or_default()
}

impl Ctx {
    fn new() -> Ctx {
        let mdk = new_mdk();
        let mdk_b = new_mdk();
        let pool: Vec<Keys> = (0..4).map(pool_keys).collect();
        let other = pool_keys(9);
        let relay = vec![RelayUrl::parse("wss://fixture.example.com").unwrap()];
        let author = pool[1].public_key();
        let (c1, t1, _) = mdk.create_key_package_for_event(&author, relay.clone()).unwrap();
        let (c2, t2, _) = mdk.create_key_package_for_event(&author, relay.clone()).unwrap();
        let (c3, t3, _) = mdk.create_key_package_for_event(&other.public_key(), relay.clone()).unwrap();
        let kp_bytes = BASE64.decode(&c1).unwrap();
        // fixture group with a fixed nostr group id (for hex_gid and the media manager)
        let creator = pool[0].public_key();
        let cfg = NostrGroupConfigData::new("fixture".into(), "".into(), None, None, None, relay, vec![creator]);
        let g = mdk.create_group(&creator, vec![], cfg).unwrap();
        let gid = g.group.mls_group_id.clone();
        mdk.update_group_data(&gid, NostrGroupDataUpdate { nostr_group_id: Some(FIXTURE_GID), ..Default::default() }).unwrap();
        mdk.merge_pending_commit(&gid).unwrap();
        Ctx {
            mdk, mdk_b, pool, other,
            kp_real: (c1, ref_of_tags(&t1)),
            kp_other: (c2, ref_of_tags(&t2)),
            kp_foreign: (c3, ref_of_tags(&t3)),
            kp_bytes,
            fixture_group: gid,
        }
    }

    fn pool_index(&self, pk: &[u8]) -> Option<usize> {
        self.pool.iter().position(|k| k.public_key().as_bytes()[..] == *pk)
    }

    /// real encoding of a value: create_group (+ members for the extra admins) + update_group_data
    /// (nostr_group_id, image_upload_key) + merge, then the bytes of the stored extension
    fn ext_encode(&self, t: &[&str]) -> Option<String> {
        let name = utf8(unhex(field(t, "name")?)?)?;
        let desc = utf8(unhex(field(t, "desc")?)?)?;
        let gid: [u8; 32] = arr(&unhex(field(t, "gid")?)?)?;
        let admins_b = hexlist(field(t, "admins")?)?;
        let relays_b = hexlist(field(t, "relays")?)?;
        let opt = |k: &str| -> Option<Option<Vec<u8>>> {
            let f = field(t, k)?;
            if f == "-" { Some(None) } else { Some(Some(hex::decode(f).ok()?)) }
        };
        let ih: Option<[u8; 32]> = match opt("ih")? { Some(b) => Some(arr(&b)?), None => None };
        let ik: Option<[u8; 32]> = match opt("ik")? { Some(b) => Some(arr(&b)?), None => None };
        let inn: Option<[u8; 12]> = match opt("in")? { Some(b) => Some(arr(&b)?), None => None };
        let iu: Option<[u8; 32]> = match opt("iu")? { Some(b) => Some(arr(&b)?), None => None };
        let mut admin_idx = Vec::new();
        for a in &admins_b { admin_idx.push(self.pool_index(a)?); }
        if !admin_idx.contains(&0) { return None; }
        let mut relays = Vec::new();
        for r in relays_b { relays.push(RelayUrl::parse(&utf8(r)?).ok()?); }
        let creator = self.pool[0].public_key();
        let admins: Vec<PublicKey> = admin_idx.iter().map(|i| self.pool[*i].public_key()).collect();
        let mut member_events = Vec::new();
        let mut seen = vec![0usize];
        for i in &admin_idx {
            if !seen.contains(i) {
                seen.push(*i);
                member_events.push(self.kp_event(&self.mdk_b, &self.pool[*i]));
            }
        }
        // inviting members needs at least one relay (d10c4c6): a value with extra admins and NO relay is
        // created with a placeholder relay, the requested (empty) relay set is written by update_group_data
        let create_relays = if relays.is_empty() && !member_events.is_empty() {
            vec![RelayUrl::parse("wss://placeholder.example.com").unwrap()]
        } else {
            relays.clone()
        };
        let cfg = NostrGroupConfigData::new(name.clone(), desc.clone(), ih, ik, inn, create_relays, admins.clone());
        let g = match self.mdk.create_group(&creator, member_events, cfg) {
            Ok(g) => g,
            Err(e) => return Some(format!("err create:{e:?}")),
        };
        let mid = g.group.mls_group_id.clone();
        let upd = NostrGroupDataUpdate { nostr_group_id: Some(gid), image_upload_key: Some(iu), relays: Some(relays.clone()), ..Default::default() };
        if let Err(e) = self.mdk.update_group_data(&mid, upd) { return Some(format!("err update:{e:?}")); }
        if let Err(e) = self.mdk.merge_pending_commit(&mid) { return Some(format!("err merge:{e:?}")); }
        let mls = self.mdk.load_mls_group(&mid).ok()??;
        let mut bytes = None;
        for e in mls.extensions().iter() {
            if e.extension_type() == ExtensionType::Unknown(NostrGroupDataExtension::EXTENSION_TYPE) {
                if let Extension::Unknown(_, u) = e { bytes = Some(u.0.clone()); }
            }
        }
        let bytes = bytes?;
        // implementation-only oracle: the real decoder on the real bytes gives back the value
        let back = NostrGroupDataExtension::from_group(&mls);
        let rt = match &back {
            Ok(x) => x.version == NostrGroupDataExtension::CURRENT_VERSION && x.nostr_group_id == gid && x.name == name
                && x.description == desc && x.admins == admins.iter().copied().collect()
                && x.relays == relays.iter().cloned().collect() && x.image_hash == ih && x.image_key == ik
                && x.image_nonce == inn && x.image_upload_key == iu,
            Err(_) => false,
        };
        let dec = ext_decode(&bytes);
        Some(format!("ok {} | rt={} dec={}", hex::encode(&bytes), rt as u8, dec.replace(' ', "~")))
    }

    fn kp_event(&self, mdk: &M, keys: &Keys) -> Event {
        let relay = vec![RelayUrl::parse("wss://kp.example.com").unwrap()];
        let (c, tags, _) = mdk.create_key_package_for_event(&keys.public_key(), relay).unwrap();
        EventBuilder::new(Kind::MlsKeyPackage, c).tags(tags).sign_with_keys(keys).unwrap()
    }

    fn kp_res(r: Result<openmls::key_packages::KeyPackage, Error>) -> String {
        match r {
            Ok(_) => "ok".into(),
            Err(Error::UnexpectedEvent { .. }) => "err:kind".into(),
            Err(Error::KeyPackage(_)) => "err:kp".into(),
            Err(Error::KeyPackageIdentityMismatch { .. }) => "err:identity".into(),
            Err(_) => "err:other".into(),
        }
    }

    fn kp_create(&self, t: &[&str]) -> Option<String> {
        let mut relays = Vec::new();
        for r in hexlist(field(t, "relays")?)? { relays.push(RelayUrl::parse(&utf8(r)?).ok()?); }
        let protected = field(t, "protected")? == "1";
        let keys = &self.pool[1];
        let (content, tags, href) = match self.mdk.create_key_package_for_event_with_options(&keys.public_key(), relays, protected) {
            Ok(x) => x,
            Err(e) => return Some(format!("err create:{e:?}")),
        };
        let r = ref_of_tags(&tags);
        let ev = EventBuilder::new(Kind::MlsKeyPackage, content).tags(tags.clone()).sign_with_keys(keys).ok()?;
        let res = Self::kp_res(self.mdk.parse_key_package(&ev));
        Some(format!("tags={} parse={} | reflen={} hrlen={}", show_tags(&tags, &[("$REF", r.clone())]), res, r.len() / 2, href.len()))
    }

    fn kp_parse(&self, t: &[&str]) -> Option<String> {
        let kind: u16 = field(t, "kind")?.parse().ok()?;
        let keys = match field(t, "author")? { "self" => &self.pool[1], "other" => &self.other, _ => return None };
        let (content, r): (String, String) = match field(t, "content")? {
            "real" => self.kp_real.clone(),
            "otherkp" => (self.kp_other.0.clone(), self.kp_real.1.clone()),
            "foreign" => self.kp_foreign.clone(),
            "trail" => {
                let mut b = self.kp_bytes.clone();
                b.extend_from_slice(&[0, 1, 2]);
                (BASE64.encode(&b), self.kp_real.1.clone())
            }
            "nb64" => ("*** not base64 ***".to_string(), self.kp_real.1.clone()),
            "hexenc" => (hex::encode(&self.kp_bytes), self.kp_real.1.clone()),
            "garbage" => (BASE64.encode([0xFFu8; 40]), self.kp_real.1.clone()),
            "trunc" => (BASE64.encode(&self.kp_bytes[..self.kp_bytes.len() - 7]), self.kp_real.1.clone()),
            _ => return None,
        };
        let mut rx: Vec<u8> = hex::decode(&r).ok()?;
        rx[0] ^= 1;
        // $REFP / $REFQ: a proper prefix of the reference (16 bytes / 1 byte); $REFE: the reference followed by one more byte
        let subst = [("$REF", r.clone()), ("$REFU", r.to_uppercase()), ("$REFX", hex::encode(rx)),
                     ("$REFP", r[..r.len() / 2].to_string()), ("$REFQ", r[..2].to_string()), ("$REFE", format!("{r}ab"))];
        let tags = parse_tags(field(t, "tags")?, &subst)?;
        let ev = EventBuilder::new(Kind::from(kind), content).tags(tags).sign_with_keys(keys).ok()?;
        Some(Self::kp_res(self.mdk.parse_key_package(&ev)))
    }

    fn welcome_validate(&self, t: &[&str]) -> Option<String> {
        let kind: u16 = field(t, "kind")?.parse().ok()?;
        let tags = parse_tags(field(t, "tags")?, &[("$E", hex::encode([0x42u8; 32]))])?;
        let mut rumor: UnsignedEvent = EventBuilder::new(Kind::from(kind), "AAAA").tags(tags).build(self.pool[0].public_key());
        rumor.ensure_id();
        let wrapper = EventId::from_slice(&rand_id()).ok()?;
        Some(match self.mdk_b.process_welcome(&wrapper, &rumor) {
            Err(Error::InvalidWelcomeMessage) => "reject".into(),
            _ => "pass".into(),
        })
    }

    fn welcome_create(&self, t: &[&str]) -> Option<String> {
        let mut relays = Vec::new();
        for r in hexlist(field(t, "relays")?)? { relays.push(RelayUrl::parse(&utf8(r)?).ok()?); }
        let name = utf8(unhex(field(t, "name")?)?)?;
        let creator = self.pool[0].public_key();
        let member = &self.pool[2];
        let kp = self.kp_event(&self.mdk_b, member);
        let cfg = NostrGroupConfigData::new(name.clone(), "d".into(), None, None, None, relays.clone(), vec![creator]);
        let refused = |e: Error| Some(format!("err create | {}", format!("{e:?}").replace(' ', "_")));
        // via=add: the group is created without members and the member is invited by add_members
        let via_add = field(t, "via") == Some("add");
        let g = match self.mdk.create_group(&creator, if via_add { vec![] } else { vec![kp.clone()] }, cfg) {
            Ok(g) => g,
            Err(e) => return refused(e),
        };
        let mut rumor = if via_add {
            match self.mdk.add_members(&g.group.mls_group_id, &[kp.clone()]) {
                Ok(u) => u.welcome_rumors?.first()?.clone(),
                Err(e) => return refused(e),
            }
        } else {
            g.welcome_rumors.first()?.clone()
        };
        if field(t, "content") == Some("trail") {
            // the serialised MLS welcome followed by three extra bytes
            let mut b = BASE64.decode(&rumor.content).ok()?;
            b.extend_from_slice(&[0, 1, 2]);
            rumor.content = BASE64.encode(&b);
            rumor.id = None;
            rumor.ensure_id();
        }
        let tags: Vec<Tag> = rumor.tags.iter().cloned().collect();
        let wrapper = EventId::from_slice(&rand_id()).ok()?;
        let (verdict, rt) = match self.mdk_b.process_welcome(&wrapper, &rumor) {
            Ok(w) => ("ok".to_string(), (w.group_name == name && w.group_relays == relays.iter().cloned().collect()
                && w.nostr_group_id == g.group.nostr_group_id && w.group_admin_pubkeys == g.group.admin_pubkeys) as u8),
            Err(Error::InvalidWelcomeMessage) => ("reject".to_string(), 0),
            Err(Error::Welcome(_)) => ("err:welcome".to_string(), 0),
            Err(_) => ("err:other".to_string(), 0),
        };
        Some(format!("kind={} tags={} verdict={} | rt={}", rumor.kind.as_u16(),
            show_tags(&tags, &[("$E", kp.id.to_hex())]), verdict, rt))
    }

    fn hex_gid(&self, t: &[&str]) -> Option<String> {
        let tags = parse_tags(field(t, "tags")?, &[])?;
        let keys = Keys::generate();
        let ev = EventBuilder::new(Kind::MlsGroupMessage, hex::encode(rand_id())).tags(tags).sign_with_keys(&keys).ok()?;
        Some(match self.mdk.process_message(&ev) {
            Err(Error::MissingGroupIdTag) => "err:missing".into(),
            Err(Error::MultipleGroupIdTags(_)) => "err:multiple".into(),
            Err(Error::InvalidGroupIdFormat(_)) => "err:format".into(),
            Err(Error::GroupNotFound) => "ok:notfound".into(),
            _ => "ok:found".into(),
        })
    }

    fn show_ref(r: &mdk_core::encrypted_media::types::MediaReference) -> String {
        format!("ok url={} x={} m={} filename={} dim={} v={} n={}",
            hex_or_e(r.url.as_bytes()), hex::encode(r.original_hash), hex_or_e(r.mime_type.as_bytes()),
            hex_or_e(r.filename.as_bytes()),
            r.dimensions.map(|(w, h)| format!("{w}x{h}")).unwrap_or_else(|| "-".into()),
            hex_or_e(r.scheme_version.as_bytes()), hex::encode(r.nonce))
    }
    fn imeta_res(r: Result<mdk_core::encrypted_media::types::MediaReference, EncryptedMediaError>) -> String {
        match r {
            Ok(r) => Self::show_ref(&r),
            Err(EncryptedMediaError::InvalidImetaTag { .. }) => "err:invalid".into(),
            Err(EncryptedMediaError::DecryptionFailed { .. }) => "err:version".into(),
            Err(_) => "err:other".into(),
        }
    }

    fn imeta_create(&self, t: &[&str]) -> Option<String> {
        let mime = utf8(unhex(field(t, "mime")?)?)?;
        let filename = utf8(unhex(field(t, "filename")?)?)?;
        let url = utf8(unhex(field(t, "url")?)?)?;
        let dims = match field(t, "dim")? {
            "-" => None,
            d => { let (w, h) = d.split_once('x')?; Some((w.parse::<u32>().ok()?, h.parse::<u32>().ok()?)) }
        };
        let blur = match field(t, "blur")? { "-" => None, b => Some(utf8(hex::decode(b).ok()?)?) };
        let x: [u8; 32] = arr(&hex::decode(field(t, "x")?).ok()?)?;
        let n: [u8; 12] = arr(&hex::decode(field(t, "n")?).ok()?)?;
        let up = EncryptedMediaUpload {
            encrypted_data: vec![], original_hash: x, encrypted_hash: [0u8; 32], mime_type: mime, filename,
            original_size: 0, encrypted_size: 0, dimensions: dims, blurhash: blur, nonce: n,
        };
        let mgr = self.mdk.media_manager(self.fixture_group.clone());
        let tag = mgr.create_imeta_tag(&up, &url);
        let vals: Vec<String> = tag.as_slice()[1..].iter().map(|v| hex::encode(v.as_bytes())).collect();
        let reference = mgr.create_media_reference(&up, url);
        let parsed = mgr.parse_imeta_tag(&tag);
        let same = match &parsed {
            Ok(p) => p.url == reference.url && p.original_hash == reference.original_hash && p.mime_type == reference.mime_type
                && p.filename == reference.filename && p.dimensions == reference.dimensions
                && p.scheme_version == reference.scheme_version && p.nonce == reference.nonce,
            Err(_) => false,
        };
        Some(format!("tag={}:{} parse={} | same={}", tok_of(&tag.as_slice()[0]), vals.join(","),
            Self::imeta_res(parsed).replace(' ', "~"), same as u8))
    }

    fn imeta_parse(&self, t: &[&str]) -> Option<String> {
        let tags = parse_tags(field(t, "tag")?, &[])?;
        let mgr = self.mdk.media_manager(self.fixture_group.clone());
        Some(Self::imeta_res(mgr.parse_imeta_tag(tags.first()?)))
    }

    /// C17 (media part): are the HKDF contexts / AADs of two metadata triples the same?  Observed through
    /// the real primitives: equal derived keys ⇔ equal context (A8), decrypt under the second triple's AAD
    /// opens ⇔ equal AAD (A8).
    fn media_pair(&self, t: &[&str]) -> Option<String> {
        use mdk_core::encrypted_media::crypto::{DEFAULT_SCHEME_VERSION, decrypt_data_with_aad, derive_encryption_key, encrypt_data_with_aad};
        let get = |k: &str| -> Option<([u8; 32], String, String)> {
            let h: [u8; 32] = arr(&hex::decode(field(t, &format!("h{k}"))?).ok()?)?;
            Some((h, utf8(unhex(field(t, &format!("m{k}"))?)?)?, utf8(unhex(field(t, &format!("f{k}"))?)?)?))
        };
        let (h1, m1, f1) = get("1")?;
        let (h2, m2, f2) = get("2")?;
        let k1 = derive_encryption_key(&self.mdk, &self.fixture_group, DEFAULT_SCHEME_VERSION, &h1, &m1, &f1).ok()?;
        let k2 = derive_encryption_key(&self.mdk, &self.fixture_group, DEFAULT_SCHEME_VERSION, &h2, &m2, &f2).ok()?;
        let nonce = mdk_storage_traits::Secret::new([7u8; 12]);
        let ct = encrypt_data_with_aad(b"media bytes", &k1, &nonce, DEFAULT_SCHEME_VERSION, &h1, &m1, &f1).ok()?;
        let opened = decrypt_data_with_aad(&ct, &k1, &nonce, DEFAULT_SCHEME_VERSION, &h2, &m2, &f2);
        let same_key = k1.as_ref() == k2.as_ref();
        Some(format!("ctx={} aad={}", if same_key { "same" } else { "diff" }, if opened.is_ok() { "open" } else { "fail" }))
    }

    fn exec(&self, t: &[&str]) -> String {
        let r = match t[0] {
            "pool" => Some(format!("ok {}", self.pool.iter().map(|k| k.public_key().to_hex()).collect::<Vec<_>>().join(","))),
            "ext_encode" => self.ext_encode(t),
            "ext_decode" => t.get(1).and_then(|h| unhex(h)).map(|b| ext_decode(&b)),
            "kp_create" => self.kp_create(t),
            "kp_parse" => self.kp_parse(t),
            "welcome_validate" => self.welcome_validate(t),
            "welcome_create" => self.welcome_create(t),
            "hex_gid" => self.hex_gid(t),
            "imeta_create" => self.imeta_create(t),
            "imeta_parse" => self.imeta_parse(t),
            "media_pair" => self.media_pair(t),
            _ => None,
        };
        r.unwrap_or_else(|| "bad-op".into())
    }
}

fn rand_id() -> [u8; 32] {
    let k = Keys::generate();
    *k.public_key().as_bytes()
}

pub fn main(_args: &[String]) -> i32 {
    std::panic::set_hook(Box::new(|_| {}));
    let stdin = io::stdin();
    let out = io::stdout();
    let mut out = io::BufWriter::new(out.lock());
    let ctx = Ctx::new();
    for line in stdin.lock().lines() {
        let line = line.unwrap();
        let t: Vec<&str> = line.split_whitespace().collect();
        if t.is_empty() || t[0].starts_with('#') {
            continue;
        }
        let r = catch_unwind(AssertUnwindSafe(|| ctx.exec(&t)));
        match r {
            Ok(s) => writeln!(out, "{s}").unwrap(),
            Err(_) => writeln!(out, "panic").unwrap(),
        }
    }
    out.flush().unwrap();
    0
}
