//! `crash` engine (C12, storage level): simulated process death at every storage tick of every
//! call of a history on a FILE-backed sqlite store.
//!
//! A history is a list of `Call`s (label + closure on the storage).  `calls_from_ops` builds them
//! from `store` op lines; other engines (mdk-core level: process_message, merge_pending_commit …)
//! can plug in their own list through `enumerate`.
//!
//! Procedure: (1) uninterrupted run on a fresh copy, recording per call the number of ticks
//! (`verif_hooks::ticks`), their labels, the result and the dump before / after; (2) for every call
//! i and every tick k inside it: fresh copy, replay calls 0..i, `arm(k)`, run call i under
//! `catch_unwind` (the k-th tick panics = the process dies before that statement), drop the storage
//! (connection abandoned, mutex possibly poisoned), reopen the file with `new_unencrypted`, dump,
//! re-execute call i and the rest of the history, dump again.
//!
//! Input:  case <id> / op <store op line> … / run          Output:
//!   base <i> <ticks> <labels,…|-> <result>
//!   basefinal <dump>
//!   crash <i> <k> <label> panicked=<0|1> reopened=<0|1> state=<pre|post|prepost|other> retry=<result> final=<same|diff>
//!   end <id>

use std::io::{self, BufRead, Write};
use std::panic::{AssertUnwindSafe, catch_unwind};
use std::path::{Path, PathBuf};

use mdk_sqlite_storage::MdkSqliteStorage;
use mdk_sqlite_storage::verif_hooks as hooks;

use crate::store;

pub struct Call {
    pub label: String,
    pub run: Box<dyn Fn(&MdkSqliteStorage) -> String>,
}

pub fn calls_from_ops(ops: &[String]) -> Vec<Call> {
    ops.iter()
        .map(|l| {
            // `multi a ;; b ;; c` = one API call made of several storage calls, NOT wrapped in a
            // transaction (the storage-level picture of mdk-core's multi-statement operations)
            let parts: Vec<String> = match l.strip_prefix("multi ") {
                Some(rest) => rest.split(";;").map(|x| x.trim().to_string()).collect(),
                None => vec![l.clone()],
            };
            Call {
                label: l.split_whitespace().next().unwrap_or("").to_string(),
                run: Box::new(move |s: &MdkSqliteStorage| {
                    let mut res = vec![];
                    for line in &parts {
                        let t: Vec<&str> = line.split_whitespace().collect();
                        res.push(store::exec(s, &t));
                    }
                    res.join("+")
                }),
            }
        })
        .collect()
}

fn copy_db(template: &Path, dir: &Path, n: &mut u64) -> PathBuf {
    *n += 1;
    let p = dir.join(format!("db{}.sqlite", *n));
    std::fs::copy(template, &p).unwrap();
    p
}

fn remove_db(p: &Path) {
    let _ = std::fs::remove_file(p);
    for ext in ["-wal", "-shm", "-journal"] {
        let mut s = p.as_os_str().to_owned();
        s.push(ext);
        let _ = std::fs::remove_file(PathBuf::from(s));
    }
}

/// the enumeration; `make_calls` must rebuild the same history each time it is called
pub fn enumerate(id: &str, make_calls: &dyn Fn() -> Vec<Call>, dump: &dyn Fn(&MdkSqliteStorage) -> String, out: &mut dyn Write) {
    let dir = tempfile::Builder::new().prefix("vh-crash").tempdir_in(store::scratch_dir()).unwrap();
    let template = dir.path().join("template.sqlite");
    drop(MdkSqliteStorage::new_unencrypted(&template).unwrap());
    let mut n = 0u64;

    // (1) uninterrupted run
    let calls = make_calls();
    let path = copy_db(&template, dir.path(), &mut n);
    let s = MdkSqliteStorage::new_unencrypted(&path).unwrap();
    let mut ticks = vec![];
    let mut labels: Vec<Vec<String>> = vec![];
    let mut pre = vec![];
    let mut post = vec![];
    for (i, c) in calls.iter().enumerate() {
        pre.push(dump(&s));
        hooks::arm(0, true);
        let r = catch_unwind(AssertUnwindSafe(|| (c.run)(&s))).unwrap_or_else(|_| "panic".into());
        let t = hooks::ticks();
        let l = hooks::labels();
        hooks::arm(0, false);
        post.push(dump(&s));
        writeln!(out, "base {i} {t} {} {r}", if l.is_empty() { "-".to_string() } else { l.join(",") }).unwrap();
        ticks.push(t);
        labels.push(l);
    }
    let fin = dump(&s);
    writeln!(out, "basefinal {fin}").unwrap();
    drop(s);
    remove_db(&path);

    // (2) every crash point
    for i in 0..calls.len() {
        for k in 1..=ticks[i] {
            let calls = make_calls();
            let path = copy_db(&template, dir.path(), &mut n);
            let s = MdkSqliteStorage::new_unencrypted(&path).unwrap();
            for c in &calls[..i] {
                let _ = catch_unwind(AssertUnwindSafe(|| (c.run)(&s)));
            }
            hooks::arm(k, false);
            let r = catch_unwind(AssertUnwindSafe(|| (calls[i].run)(&s)));
            hooks::arm(0, false);
            let panicked = r.is_err();
            drop(s); // the connection is abandoned here (its mutex may be poisoned)
            let reopened = catch_unwind(|| MdkSqliteStorage::new_unencrypted(&path));
            let label = labels[i].get(k as usize - 1).cloned().unwrap_or_else(|| "?".into());
            match reopened {
                Ok(Ok(s2)) => {
                    let mid = catch_unwind(AssertUnwindSafe(|| dump(&s2))).unwrap_or_else(|_| "panic".into());
                    let state = match (mid == pre[i], mid == post[i]) {
                        (true, true) => "prepost",
                        (true, false) => "pre",
                        (false, true) => "post",
                        _ => "other",
                    };
                    let mut retry = String::new();
                    for (j, c) in calls.iter().enumerate().skip(i) {
                        let r = catch_unwind(AssertUnwindSafe(|| (c.run)(&s2))).unwrap_or_else(|_| "panic".into());
                        if j == i {
                            retry = r;
                        }
                    }
                    let f2 = catch_unwind(AssertUnwindSafe(|| dump(&s2))).unwrap_or_else(|_| "panic".into());
                    writeln!(out, "crash {i} {k} {label} panicked={} reopened=1 state={state} retry={retry} final={}",
                        panicked as u8, if f2 == fin { "same" } else { "diff" }).unwrap();
                    drop(s2);
                }
                _ => {
                    writeln!(out, "crash {i} {k} {label} panicked={} reopened=0 state=other retry=- final=diff", panicked as u8).unwrap();
                }
            }
            remove_db(&path);
        }
    }
    writeln!(out, "end {id}").unwrap();
}

pub fn main(_args: &[String]) -> i32 {
    std::panic::set_hook(Box::new(|_| {}));
    let stdin = io::stdin();
    let out = io::stdout();
    let mut out = io::BufWriter::new(out.lock());
    let mut id = String::new();
    let mut ops: Vec<String> = vec![];
    for line in stdin.lock().lines() {
        let line = line.unwrap();
        let line = line.trim().to_string();
        if line.is_empty() || line.starts_with('#') {
            continue;
        }
        let (head, rest) = line.split_once(' ').unwrap_or((line.as_str(), ""));
        match head {
            "case" => {
                id = rest.trim().to_string();
                ops.clear();
            }
            "op" => ops.push(rest.to_string()),
            "run" => {
                let o = ops.clone();
                enumerate(&id, &move || calls_from_ops(&o), &|s| store::dump(s), &mut out);
                out.flush().unwrap();
            }
            _ => writeln!(out, "bad-line {line}").unwrap(),
        }
    }
    out.flush().unwrap();
    0
}
