mod mgr;
mod appmsg;
mod leak;
mod atrest;
mod conc;
mod crash;
mod codec;
mod store;
mod world;
mod invite;
mod mediaw;
mod crashw;
mod wrap;
mod msgwin;
mod ffi;

fn main() {
    let args: Vec<String> = std::env::args().collect();
    let code = match args.get(1).map(|s| s.as_str()) {
        Some("store") => store::main(&args[2..]),
        Some("mgr") => mgr::main(&args[2..]),
        Some("world") => world::main(&args[2..]),
        Some("invite") => invite::main(&args[2..]),
        Some("mediaw") => mediaw::main(&args[2..]),
        Some("crashw") => crashw::main(&args[2..]),
        Some("leak") => leak::main(&args[2..]),
        Some("appmsg") => appmsg::main(&args[2..]),
        Some("atrest") => atrest::main(&args[2..]),
        Some("conc") => conc::main(&args[2..]),
        Some("crash") => crash::main(&args[2..]),
        Some("codec") => codec::main(&args[2..]),
        Some("wrap") => wrap::main(&args[2..]),
        Some("msgwin") => msgwin::main(&args[2..]),
        Some("ffi") => ffi::main(&args[2..]),
        _ => {
            eprintln!("usage: vh store [--file] < ops");
            2
        }
    };
    std::process::exit(code);
}
