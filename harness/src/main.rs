mod codec;
mod store;

fn main() {
    let args: Vec<String> = std::env::args().collect();
    let code = match args.get(1).map(|s| s.as_str()) {
        Some("store") => store::main(&args[2..]),
        Some("codec") => codec::main(&args[2..]),
        _ => {
            eprintln!("usage: vh store [--file] < ops");
            2
        }
    };
    std::process::exit(code);
}
