//! `store` engine: executes abstract storage operations (one per line on stdin) against the
//! real memory / SQLite backends and prints one canonical observation per line.  The same
//! lines are replayed on the Lean model (`mdkdrv store`); the two output streams are diffed.
//! Encoding of abstract values is documented next to each `mk_*` function.

use std::collections::BTreeSet;
use std::io::{self, BufRead, Write};
use std::panic::{AssertUnwindSafe, catch_unwind};

use mdk_memory_storage::MdkMemoryStorage;
use mdk_sqlite_storage::MdkSqliteStorage;
use mdk_storage_traits::groups::types::{Group, GroupExporterSecret, GroupState, SelfUpdateState};
use mdk_storage_traits::groups::{MessageSortOrder, Pagination};
use mdk_storage_traits::messages::types::{Message, MessageState, ProcessedMessage, ProcessedMessageState};
use mdk_storage_traits::welcomes::types::{ProcessedWelcome, ProcessedWelcomeState, Welcome, WelcomeState};
use mdk_storage_traits::welcomes::Pagination as WPagination;
use mdk_storage_traits::{GroupId, MdkStorageProvider, Secret};
use nostr::{EventId, Keys, Kind, PublicKey, RelayUrl, SecretKey, Tag, Tags, Timestamp, UnsignedEvent};
use openmls_traits::storage::{Entity, Key, StorageProvider, traits};
use serde::{Deserialize, Serialize};

pub enum Be {
    Mem(MdkMemoryStorage),
    Sql(MdkSqliteStorage, Option<tempfile::TempDir>),
}

macro_rules! with {
    ($be:expr, |$s:ident| $e:expr) => {
        match $be {
            Be::Mem($s) => $e,
            Be::Sql($s, _) => $e,
        }
    };
}

// ---- abstract value encodings ------------------------------------------------------------

pub const GID_POOL: u64 = 8;
pub const WRAPPER_POOL: u64 = 48;
pub const WELCOME_POOL: u64 = 16;
pub const EPOCH_POOL: u64 = 12;
pub const SNAP_NAMES: u64 = 8;

/// group n ↦ GroupId bytes [0xAA, n_be(3)]
pub fn mk_gid(n: u64) -> GroupId {
    GroupId::from_slice(&[0xAA, (n >> 16) as u8, (n >> 8) as u8, n as u8])
}
fn gid_num(g: &GroupId) -> u64 {
    let b = g.as_slice();
    if b.len() == 4 && b[0] == 0xAA {
        ((b[1] as u64) << 16) | ((b[2] as u64) << 8) | b[3] as u64
    } else {
        999_999
    }
}
/// 32-byte big-endian encoding (preserves the byte-lexicographic order of ids)
fn be32(n: u64) -> [u8; 32] {
    let mut b = [0u8; 32];
    b[24..].copy_from_slice(&n.to_be_bytes());
    b
}
fn be32_num(b: &[u8; 32]) -> u64 {
    if b[..24].iter().any(|x| *x != 0) {
        return 999_999;
    }
    u64::from_be_bytes(b[24..].try_into().unwrap())
}
pub fn mk_eid(n: u64) -> EventId {
    EventId::from_slice(&be32(n)).unwrap()
}
fn eid_num(e: &EventId) -> u64 {
    be32_num(e.as_bytes())
}
static PK_POOL: std::sync::OnceLock<Vec<PublicKey>> = std::sync::OnceLock::new();
fn pk_pool() -> &'static Vec<PublicKey> {
    PK_POOL.get_or_init(|| {
        (0..800u32)
            .map(|i| {
                let mut sk = [0x11u8; 32];
                sk[28..].copy_from_slice(&(i + 1).to_be_bytes());
                Keys::new(SecretKey::from_slice(&sk).unwrap()).public_key()
            })
            .collect()
    })
}
pub fn mk_pk(i: u64) -> PublicKey {
    let p = pk_pool();
    p[(i as usize) % p.len()]
}
fn pk_num(pk: &PublicKey) -> u64 {
    pk_pool().iter().position(|x| x == pk).map(|i| i as u64).unwrap_or(999_999)
}
fn admin_set(n: u64) -> BTreeSet<PublicKey> {
    (0..n).map(mk_pk).collect()
}
fn admin_num(s: &BTreeSet<PublicKey>) -> u64 {
    if *s == admin_set(s.len() as u64) { s.len() as u64 } else { 999_999 }
}
fn mk_name(len: u64) -> String {
    "n".repeat(len as usize)
}
const TAG_WORDS: [&str; 7] = ["", "alpha_1", "be%ta", "gam\\ma", "delta", "alphaX1", "beXYta"];
fn mk_tags(i: u64) -> Tags {
    if i == 0 {
        Tags::new()
    } else if i >= 1000 {
        // boundary stream: one tag whose value has exactly i - 1000 bytes
        Tags::from_list(vec![Tag::parse(["t".to_string(), "v".repeat((i - 1000) as usize)]).unwrap()])
    } else {
        Tags::from_list(vec![Tag::parse(["t", TAG_WORDS[i as usize % TAG_WORDS.len()]]).unwrap()])
    }
}
fn tags_num(t: &Tags) -> u64 {
    if let Some(v) = t.iter().next().and_then(|x| x.content().map(|c| c.to_string())) {
        if t.len() == 1 && v.len() >= 20 && v.bytes().all(|b| b == b'v') {
            return 1000 + v.len() as u64;
        }
    }
    for i in 0..TAG_WORDS.len() as u64 {
        if *t == mk_tags(i) {
            return i;
        }
    }
    999_999
}
fn mk_content(tok: u64, len: u64) -> String {
    let mut s = format!("c{tok}:");
    while (s.len() as u64) < len {
        s.push('x');
    }
    s
}
fn content_tok(s: &str) -> u64 {
    s.strip_prefix('c').and_then(|r| r.split(':').next()).and_then(|n| n.parse().ok()).unwrap_or(999_999)
}
fn relay_url(r: u64) -> RelayUrl {
    // r < 1000: a short (24-byte) url; 1000 <= r < 10^6: a url of exactly r bytes; r >= 10^6: a url of exactly r / 10^6
    // bytes (boundary stream: 512000001 = 512 bytes, host number 1).  Model: Store.relayLen
    let base = format!("wss://r{:04}.example.com", r % 10000);
    let want = if r >= 1_000_000 { r / 1_000_000 } else if r >= 1000 { r } else { 0 };
    let mut s = base;
    if want > 0 {
        s.push('/');
        while (s.len() as u64) < want {
            s.push('p');
        }
    }
    RelayUrl::parse(&s).unwrap()
}
fn relay_num(u: &RelayUrl) -> u64 {
    let s = u.as_str();
    let id: u64 = s.strip_prefix("wss://r").and_then(|r| r.get(..4)).and_then(|n| n.parse().ok()).unwrap_or(999_999);
    let len = s.len() as u64;
    if s.contains(".com/p") {
        if len >= 1000 && id == len % 10000 { len } else { len * 1_000_000 + id }
    } else {
        id
    }
}

fn opt_u(s: &str) -> Option<u64> {
    if s == "-" { None } else { Some(s.parse().expect("nat")) }
}
fn u(s: &str) -> u64 {
    s.parse().expect("nat")
}
fn o(v: Option<u64>) -> String {
    v.map(|x| x.to_string()).unwrap_or_else(|| "-".into())
}

fn mk_group(a: &[&str]) -> Group {
    let img = u(a[5]);
    Group {
        mls_group_id: mk_gid(u(a[0])),
        nostr_group_id: be32(u(a[1])),
        name: mk_name(u(a[2])),
        description: mk_name(u(a[3])),
        admin_pubkeys: admin_set(u(a[4])),
        image_hash: (img > 0).then(|| [img as u8; 32]),
        image_key: (img > 0).then(|| Secret::new([img as u8; 32])),
        image_nonce: (img > 0).then(|| Secret::new([img as u8; 12])),
        last_message_id: opt_u(a[6]).map(mk_eid),
        last_message_at: opt_u(a[7]).map(Timestamp::from),
        last_message_processed_at: opt_u(a[8]).map(Timestamp::from),
        epoch: u(a[9]),
        state: match u(a[10]) {
            0 => GroupState::Active,
            1 => GroupState::Inactive,
            _ => GroupState::Pending,
        },
        self_update_state: match u(a[11]) {
            0 => SelfUpdateState::Required,
            t => SelfUpdateState::CompletedAt(Timestamp::from(t)),
        },
    }
}
pub fn show_group(g: &Group) -> String {
    let img = match (&g.image_hash, &g.image_key, &g.image_nonce) {
        (None, None, None) => 0,
        (Some(h), Some(k), Some(n)) if h.iter().all(|b| *b == h[0]) && **k == *h && n.iter().all(|b| *b == h[0]) => h[0] as u64,
        _ => 999_999,
    };
    let su = match g.self_update_state {
        SelfUpdateState::Required => 0,
        SelfUpdateState::CompletedAt(t) => t.as_secs(),
    };
    let st = match g.state {
        GroupState::Active => 0,
        GroupState::Inactive => 1,
        GroupState::Pending => 2,
    };
    format!(
        "g({},{},{},{},{},{},{},{},{},{},{},{})",
        gid_num(&g.mls_group_id),
        be32_num(&g.nostr_group_id),
        g.name.len(),
        g.description.len(),
        admin_num(&g.admin_pubkeys),
        img,
        o(g.last_message_id.as_ref().map(eid_num)),
        o(g.last_message_at.map(|t| t.as_secs())),
        o(g.last_message_processed_at.map(|t| t.as_secs())),
        g.epoch,
        st,
        su
    )
}

fn ev_override(a: &[&str]) -> Option<u64> {
    a.iter().find_map(|t| t.strip_prefix("e=")).and_then(|n| n.parse().ok())
}
/// serialized sizes of the values of a saving op, measured with the calls the SQLite backend makes on them:
/// (tags JSON, event JSON, admin-pubkeys JSON, relays JSON); 0 where the op has no such value
pub fn measure(t: &[&str]) -> Option<(usize, usize, usize, usize)> {
    use nostr::JsonUtil;
    let a = &t[1..];
    match t[0] {
        "save_group" => {
            let g = mk_group(a);
            Some((0, 0, serde_json::to_string(&g.admin_pubkeys).ok()?.len(), 0))
        }
        "save_message" => {
            let m = mk_msg(a);
            Some((serde_json::to_string(&m.tags).ok()?.len(), m.event.as_json().len(), 0, 0))
        }
        "save_welcome" => {
            let w = mk_welcome(a);
            Some((0, w.event.as_json().len(), serde_json::to_string(&w.group_admin_pubkeys).ok()?.len(), serde_json::to_string(&w.group_relays).ok()?.len()))
        }
        _ => None,
    }
}
fn show_sizes(z: (usize, usize, usize, usize)) -> String {
    format!("{},{},{},{}", z.0, z.1, z.2, z.3)
}
/// an op line may carry its measured sizes as `z=<tags>,<event>,<admins>,<relays>` (what the Lean driver reads): the
/// annotation must be what this process measures on the value it is about to save
fn annotation_ok(t: &[&str]) -> bool {
    match t.iter().find_map(|x| x.strip_prefix("z=")) {
        None => true,
        Some(z) => measure(t).map(|m| show_sizes(m) == z).unwrap_or(false),
    }
}
fn mk_msg(a: &[&str]) -> Message {
    let pk = mk_pk(u(a[2]));
    let kind = Kind::from(u(a[3]) as u16);
    let created = Timestamp::from(u(a[4]));
    let tags = mk_tags(u(a[8]));
    let content = mk_content(u(a[6]), u(a[7]));
    // `e=<n>` (boundary stream): the embedded event carries its own content of n bytes and no tags, so that the content /
    // tags limits can be reached without the event-JSON limit (which is smaller) firing first
    let mut ev = match ev_override(a) {
        Some(n) => UnsignedEvent::new(pk, created, kind, Tags::new(), format!("E!{}", "e".repeat((n as usize).saturating_sub(2)))),
        None => UnsignedEvent::new(pk, created, kind, tags.clone(), content.clone()),
    };
    ev.id = Some(mk_eid(u(a[0])));
    Message {
        id: mk_eid(u(a[0])),
        pubkey: pk,
        kind,
        mls_group_id: mk_gid(u(a[1])),
        created_at: created,
        processed_at: Timestamp::from(u(a[5])),
        content,
        tags,
        event: ev,
        wrapper_event_id: mk_eid(u(a[9])),
        epoch: opt_u(a[10]),
        state: match u(a[11]) {
            0 => MessageState::Created,
            1 => MessageState::Processed,
            2 => MessageState::Deleted,
            _ => MessageState::EpochInvalidated,
        },
    }
}
pub fn show_msg(m: &Message) -> String {
    let st = match m.state {
        MessageState::Created => 0,
        MessageState::Processed => 1,
        MessageState::Deleted => 2,
        MessageState::EpochInvalidated => 3,
    };
    // the embedded event must still be the one that was saved
    let ev_ok = m.event.pubkey == m.pubkey
        && (m.event.content.starts_with("E!") || (m.event.content == m.content && m.event.tags == m.tags))
        && m.event.created_at == m.created_at
        && m.event.kind == m.kind
        && m.event.id == Some(m.id);
    format!(
        "m({},{},{},{},{},{},{},{},{},{},{},{}){}",
        eid_num(&m.id),
        gid_num(&m.mls_group_id),
        pk_num(&m.pubkey),
        m.kind.as_u16(),
        m.created_at.as_secs(),
        m.processed_at.as_secs(),
        content_tok(&m.content),
        m.content.len(),
        tags_num(&m.tags),
        eid_num(&m.wrapper_event_id),
        o(m.epoch),
        st,
        if ev_ok { "" } else { "!event" }
    )
}

fn mk_pm(a: &[&str]) -> ProcessedMessage {
    ProcessedMessage {
        wrapper_event_id: mk_eid(u(a[0])),
        message_event_id: opt_u(a[1]).map(mk_eid),
        processed_at: Timestamp::from(u(a[2])),
        epoch: opt_u(a[3]),
        mls_group_id: opt_u(a[4]).map(mk_gid),
        state: match u(a[5]) {
            0 => ProcessedMessageState::Created,
            1 => ProcessedMessageState::Processed,
            2 => ProcessedMessageState::ProcessedCommit,
            3 => ProcessedMessageState::Failed,
            4 => ProcessedMessageState::EpochInvalidated,
            _ => ProcessedMessageState::Retryable,
        },
        failure_reason: opt_u(a[6]).map(|r| format!("reason{r}")),
    }
}
pub fn show_pm(p: &ProcessedMessage) -> String {
    let st = match p.state {
        ProcessedMessageState::Created => 0,
        ProcessedMessageState::Processed => 1,
        ProcessedMessageState::ProcessedCommit => 2,
        ProcessedMessageState::Failed => 3,
        ProcessedMessageState::EpochInvalidated => 4,
        ProcessedMessageState::Retryable => 5,
    };
    format!(
        "pm({},{},{},{},{},{},{})",
        eid_num(&p.wrapper_event_id),
        o(p.message_event_id.as_ref().map(eid_num)),
        p.processed_at.as_secs(),
        o(p.epoch),
        o(p.mls_group_id.as_ref().map(gid_num)),
        st,
        o(p.failure_reason.as_ref().map(|r| r.strip_prefix("reason").and_then(|n| n.parse().ok()).unwrap_or(999_999)))
    )
}

fn mk_welcome(a: &[&str]) -> Welcome {
    let nrel = u(a[6]);
    let rlen = u(a[7]);
    let mut relays = BTreeSet::new();
    for i in 0..nrel {
        // the first relay has exactly `rlen` bytes unless rlen is the default 24 (Model: Welcome.relayLen)
        relays.insert(if i == 0 && rlen >= 1000 { relay_url(rlen) } else if i == 0 && rlen >= 30 { relay_url(rlen * 1_000_000) } else { relay_url(i) });
    }
    let welcomer = mk_pk(u(a[8]));
    let evc = match ev_override(a) {
        Some(n) => format!("E!{}", "e".repeat((n as usize).saturating_sub(2))),
        None => "welcome".to_string(),
    };
    let mut ev = UnsignedEvent::new(welcomer, Timestamp::from(1_700_000_000u64), Kind::MlsWelcome, Tags::new(), evc);
    ev.id = Some(mk_eid(u(a[0])));
    Welcome {
        id: mk_eid(u(a[0])),
        event: ev,
        mls_group_id: mk_gid(u(a[1])),
        nostr_group_id: be32(u(a[2])),
        group_name: mk_name(u(a[3])),
        group_description: mk_name(u(a[4])),
        group_image_hash: None,
        group_image_key: None,
        group_image_nonce: None,
        group_admin_pubkeys: admin_set(u(a[5])),
        group_relays: relays,
        welcomer,
        member_count: u(a[9]) as u32,
        state: match u(a[10]) {
            0 => WelcomeState::Pending,
            1 => WelcomeState::Accepted,
            2 => WelcomeState::Declined,
            _ => WelcomeState::Ignored,
        },
        wrapper_event_id: mk_eid(u(a[11])),
    }
}
pub fn show_welcome(w: &Welcome) -> String {
    let st = match w.state {
        WelcomeState::Pending => 0,
        WelcomeState::Accepted => 1,
        WelcomeState::Declined => 2,
        WelcomeState::Ignored => 3,
    };
    let maxlen = w.group_relays.iter().map(|r| r.as_str().len() as u64).max().unwrap_or(0);
    let rlen = if maxlen >= 30 { maxlen } else { 24 };
    format!(
        "w({},{},{},{},{},{},{},{},{},{},{},{})",
        eid_num(&w.id),
        gid_num(&w.mls_group_id),
        be32_num(&w.nostr_group_id),
        w.group_name.len(),
        w.group_description.len(),
        admin_num(&w.group_admin_pubkeys),
        w.group_relays.len(),
        rlen,
        pk_num(&w.welcomer),
        w.member_count,
        st,
        eid_num(&w.wrapper_event_id)
    )
}
fn mk_pw(a: &[&str]) -> ProcessedWelcome {
    ProcessedWelcome {
        wrapper_event_id: mk_eid(u(a[0])),
        welcome_event_id: opt_u(a[1]).map(mk_eid),
        processed_at: Timestamp::from(u(a[2])),
        state: if u(a[3]) == 0 { ProcessedWelcomeState::Processed } else { ProcessedWelcomeState::Failed },
        failure_reason: opt_u(a[4]).map(|r| format!("reason{r}")),
    }
}
fn show_pw(p: &ProcessedWelcome) -> String {
    format!(
        "pw({},{},{},{},{})",
        eid_num(&p.wrapper_event_id),
        o(p.welcome_event_id.as_ref().map(eid_num)),
        p.processed_at.as_secs(),
        if p.state == ProcessedWelcomeState::Processed { 0 } else { 1 },
        o(p.failure_reason.as_ref().map(|r| r.strip_prefix("reason").and_then(|n| n.parse().ok()).unwrap_or(999_999)))
    )
}

// ---- abstract OpenMLS rows ---------------------------------------------------------------

#[derive(Serialize, Deserialize, Clone, Debug, PartialEq)]
pub struct Ent(pub u64);
impl Entity<1> for Ent {}
impl Key<1> for Ent {}
impl traits::TreeSync<1> for Ent {}
impl traits::GroupContext<1> for Ent {}
impl traits::InterimTranscriptHash<1> for Ent {}
impl traits::ConfirmationTag<1> for Ent {}
impl traits::GroupState<1> for Ent {}
impl traits::MessageSecrets<1> for Ent {}
impl traits::ResumptionPskStore<1> for Ent {}
impl traits::LeafNodeIndex<1> for Ent {}
impl traits::GroupEpochSecrets<1> for Ent {}
impl traits::MlsGroupJoinConfig<1> for Ent {}
impl traits::QueuedProposal<1> for Ent {}
impl traits::ProposalRef<1> for Ent {}
impl traits::HpkeKeyPair<1> for Ent {}
impl traits::EpochKey<1> for Ent {}
impl traits::LeafNode<1> for Ent {}

pub const MLS_KEYS: [u64; 20] = [0, 1, 2, 3, 4, 5, 6, 7, 8, 9, 10, 11, 12, 13, 14, 20, 21, 22, 23, 24];

fn mls_write<S: StorageProvider<1>>(s: &S, g: &GroupId, k: u64, v: u64) -> Result<(), S::Error> {
    let gid = g.inner();
    let e = Ent(v);
    match k {
        0 => s.write_tree(gid, &e),
        1 => s.write_context(gid, &e),
        2 => s.write_interim_transcript_hash(gid, &e),
        3 => s.write_confirmation_tag(gid, &e),
        4 => s.write_group_state(gid, &e),
        5 => s.write_message_secrets(gid, &e),
        6 => s.write_resumption_psk_store(gid, &e),
        7 => s.write_own_leaf_index(gid, &e),
        8 => s.write_group_epoch_secrets(gid, &e),
        9 => s.write_mls_join_config(gid, &e),
        10..=14 => s.queue_proposal(gid, &Ent(k), &e),
        _ => s.write_encryption_epoch_key_pairs(gid, &Ent(k), 0, &[e]),
    }
}
fn mls_read<S: StorageProvider<1>>(s: &S, g: &GroupId, k: u64) -> Result<Option<u64>, S::Error> {
    let gid = g.inner();
    let r: Option<Ent> = match k {
        0 => s.tree(gid)?,
        1 => s.group_context(gid)?,
        2 => s.interim_transcript_hash(gid)?,
        3 => s.confirmation_tag(gid)?,
        4 => s.group_state(gid)?,
        5 => s.message_secrets(gid)?,
        6 => s.resumption_psk_store(gid)?,
        7 => s.own_leaf_index(gid)?,
        8 => s.group_epoch_secrets(gid)?,
        9 => s.mls_group_join_config(gid)?,
        10..=14 => {
            let l: Vec<(Ent, Ent)> = s.queued_proposals(gid)?;
            l.into_iter().find(|(r, _)| r.0 == k).map(|(_, p)| p)
        }
        _ => {
            let l: Vec<Ent> = s.encryption_epoch_key_pairs(gid, &Ent(k), 0)?;
            l.into_iter().next()
        }
    };
    Ok(r.map(|e| e.0))
}
fn mls_delete<S: StorageProvider<1>>(s: &S, g: &GroupId, k: u64) -> Result<(), S::Error> {
    let gid = g.inner();
    match k {
        0 => s.delete_tree(gid),
        1 => s.delete_context(gid),
        2 => s.delete_interim_transcript_hash(gid),
        3 => s.delete_confirmation_tag(gid),
        4 => s.delete_group_state(gid),
        5 => s.delete_message_secrets(gid),
        6 => s.delete_all_resumption_psk_secrets(gid),
        7 => s.delete_own_leaf_index(gid),
        8 => s.delete_group_epoch_secrets(gid),
        9 => s.delete_group_config(gid),
        10..=14 => s.remove_proposal(gid, &Ent(k)),
        _ => s.delete_encryption_epoch_key_pairs(gid, &Ent(k), 0),
    }
}

// ---- execution ----------------------------------------------------------------------------

fn list<T>(items: impl IntoIterator<Item = T>, f: impl Fn(&T) -> String) -> String {
    format!("[{}]", items.into_iter().map(|x| f(&x)).collect::<Vec<_>>().join(";"))
}
fn nat_list(mut v: Vec<u64>, sort: bool) -> String {
    if sort {
        v.sort();
    }
    format!("[{}]", v.iter().map(|x| x.to_string()).collect::<Vec<_>>().join(","))
}
fn opt_show<T>(v: Option<T>, f: impl Fn(&T) -> String) -> String {
    match v {
        None => "none".into(),
        Some(x) => format!("some:{}", f(&x)),
    }
}
fn ok_err<T, E>(r: Result<T, E>) -> String {
    if r.is_ok() { "ok".into() } else { "err".into() }
}
fn sort_order(n: u64) -> MessageSortOrder {
    if n == 1 { MessageSortOrder::ProcessedAtFirst } else { MessageSortOrder::CreatedAtFirst }
}
fn set_clock(ts: u64) {
    mdk_memory_storage::verif_hooks::set_snapshot_now(ts);
    mdk_sqlite_storage::verif_hooks::set_snapshot_now(ts as i64);
}

pub fn snap_name(n: u64) -> String {
    format!("snap{n}")
}
fn snap_list_str<S: MdkStorageProvider>(s: &S, g: &GroupId) -> String {
    match s.list_group_snapshots(g) {
        Err(_) => "err".into(),
        Ok(mut l) => {
            // ties on the second are unordered by contract: canonicalise by (created_at, name)
            let mut v: Vec<(u64, u64)> = l
                .drain(..)
                .map(|(n, t)| (n.strip_prefix("snap").and_then(|x| x.parse().ok()).unwrap_or(999_999), t))
                .collect();
            v.sort_by_key(|(n, t)| (*t, *n));
            list(v, |(n, t)| format!("{n}@{t}"))
        }
    }
}

pub fn dump<S: MdkStorageProvider>(s: &S) -> String {
    let mut groups = s.all_groups().unwrap_or_default();
    groups.sort_by_key(|g| gid_num(&g.mls_group_id));
    let per_group = list(groups.iter(), |g| {
        let gid = &g.mls_group_id;
        let relays: Vec<u64> = s.group_relays(gid).map(|r| r.iter().map(|x| relay_num(&x.relay_url)).collect()).unwrap_or(vec![777_777]);
        let mut secrets = vec![];
        for e in 0..EPOCH_POOL {
            if let Ok(Some(x)) = s.get_group_exporter_secret(gid, e) {
                secrets.push((e, x.secret[0] as u64));
            }
        }
        let by_n = s.find_group_by_nostr_group_id(&g.nostr_group_id).ok().flatten();
        let msgs = s
            .messages(gid, Some(Pagination::new(Some(10000), Some(0))))
            .map(|l| list(l.iter(), |m| show_msg(m)))
            .unwrap_or("err".into());
        format!(
            "{}r{}s{}n{}M{}S{}",
            show_group(g),
            nat_list(relays, true),
            list(secrets, |(e, v)| format!("{e}:{v}")),
            opt_show(by_n, show_group),
            msgs,
            snap_list_str(s, gid)
        )
    });
    let mut pms = vec![];
    for w in 0..WRAPPER_POOL {
        if let Ok(Some(p)) = s.find_processed_message_by_event_id(&mk_eid(w)) {
            pms.push(p);
        }
    }
    let mut ws = vec![];
    let mut pws = vec![];
    for w in 0..WELCOME_POOL {
        if let Ok(Some(x)) = s.find_welcome_by_event_id(&mk_eid(w)) {
            ws.push(x);
        }
    }
    for w in 0..WRAPPER_POOL {
        if let Ok(Some(x)) = s.find_processed_welcome_by_event_id(&mk_eid(w)) {
            pws.push(x);
        }
    }
    let mut mls = vec![];
    for g in 0..GID_POOL {
        for k in MLS_KEYS {
            if let Ok(Some(v)) = mls_read(s, &mk_gid(g), k) {
                mls.push(format!("{g}.{k}={v}"));
            }
        }
    }
    let mut idx = vec![];
    for n in 10..=16u64 {
        idx.push(match s.find_group_by_nostr_group_id(&be32(n)) {
            Ok(Some(g)) => format!("{n}>{}.{}.{}", gid_num(&g.mls_group_id), g.epoch, g.name.len()),
            _ => format!("{n}>-"),
        });
    }
    format!(
        "G{}P{}W{}Q{}X{}I{}",
        per_group,
        list(pms.iter(), |p| show_pm(p)),
        list(ws.iter(), |w| show_welcome(w)),
        list(pws.iter(), |p| show_pw(p)),
        list(mls, |x| x.clone()),
        list(idx, |x| x.clone())
    )
}

pub fn exec<S: MdkStorageProvider>(s: &S, t: &[&str]) -> String {
    let a = &t[1..];
    if t[0] == "measure" {
        return measure(a).map(|z| format!("z={}", show_sizes(z))).unwrap_or_else(|| "z=0,0,0,0".into());
    }
    if !annotation_ok(t) {
        return "bad-annotation".into();
    }
    match t[0] {
        "save_group" => ok_err(s.save_group(mk_group(a))),
        "find_group" => match s.find_group_by_mls_group_id(&mk_gid(u(a[0]))) {
            Ok(g) => opt_show(g, show_group),
            Err(_) => "err".into(),
        },
        "find_group_nostr" => match s.find_group_by_nostr_group_id(&be32(u(a[0]))) {
            Ok(g) => opt_show(g, show_group),
            Err(_) => "err".into(),
        },
        "all_groups" => match s.all_groups() {
            Ok(mut l) => {
                l.sort_by_key(|g| gid_num(&g.mls_group_id));
                list(l.iter(), |g| show_group(g))
            }
            Err(_) => "err".into(),
        },
        "save_message" => ok_err(s.save_message(mk_msg(a))),
        "find_message" => match s.find_message_by_event_id(&mk_gid(u(a[0])), &mk_eid(u(a[1]))) {
            Ok(m) => opt_show(m, show_msg),
            Err(_) => "err".into(),
        },
        "messages" => {
            let p = if a[1] == "-" && a[2] == "-" && a[3] == "-" {
                None
            } else {
                Some(Pagination {
                    limit: opt_u(a[1]).map(|x| x as usize),
                    offset: opt_u(a[2]).map(|x| x as usize),
                    sort_order: opt_u(a[3]).map(sort_order),
                })
            };
            match s.messages(&mk_gid(u(a[0])), p) {
                Ok(l) => list(l.iter(), |m| show_msg(m)),
                Err(_) => "err".into(),
            }
        }
        "last_message" => match s.last_message(&mk_gid(u(a[0])), sort_order(u(a[1]))) {
            Ok(m) => opt_show(m, show_msg),
            Err(_) => "err".into(),
        },
        "save_pm" => ok_err(s.save_processed_message(mk_pm(a))),
        "find_pm" => match s.find_processed_message_by_event_id(&mk_eid(u(a[0]))) {
            Ok(p) => opt_show(p, show_pm),
            Err(_) => "err".into(),
        },
        "inval_msgs" => match s.invalidate_messages_after_epoch(&mk_gid(u(a[0])), u(a[1])) {
            Ok(l) => nat_list(l.iter().map(eid_num).collect(), true),
            Err(_) => "err".into(),
        },
        "inval_pms" => match s.invalidate_processed_messages_after_epoch(&mk_gid(u(a[0])), u(a[1])) {
            Ok(l) => nat_list(l.iter().map(eid_num).collect(), true),
            Err(_) => "err".into(),
        },
        "find_inval_msgs" => match s.find_invalidated_messages(&mk_gid(u(a[0]))) {
            Ok(mut l) => {
                l.sort_by_key(|m| (gid_num(&m.mls_group_id), eid_num(&m.id)));
                list(l.iter(), |m| show_msg(m))
            }
            Err(_) => "err".into(),
        },
        "find_inval_pms" => match s.find_invalidated_processed_messages(&mk_gid(u(a[0]))) {
            Ok(mut l) => {
                l.sort_by_key(|p| eid_num(&p.wrapper_event_id));
                list(l.iter(), |p| show_pm(p))
            }
            Err(_) => "err".into(),
        },
        "failed_retry" => match s.find_failed_messages_for_retry(&mk_gid(u(a[0]))) {
            Ok(l) => nat_list(l.iter().map(eid_num).collect(), true),
            Err(_) => "err".into(),
        },
        "upd_last" => match s.find_group_by_mls_group_id(&mk_gid(u(a[0]))) {
            Ok(Some(mut g)) => {
                let m = mk_msg(&[a[3], a[0], "0", "9", a[1], a[2], "0", "4", "0", "0", "-", "1"]);
                let r = g.update_last_message_if_newer(&m);
                match s.save_group(g) {
                    Ok(()) => r.to_string(),
                    Err(_) => "err".into(),
                }
            }
            _ => "err".into(),
        },
        "mark_retryable" => ok_err(s.mark_processed_message_retryable(&mk_eid(u(a[0])))),
        "find_epoch_by_tag" => {
            let word = TAG_WORDS[u(a[1]) as usize % TAG_WORDS.len()];
            let needle = if u(a[2]) == 1 { word.to_ascii_uppercase() } else { word.to_string() };
            match s.find_message_epoch_by_tag_content(&mk_gid(u(a[0])), &needle) {
                Ok(e) => opt_show(e, |x| x.to_string()),
                Err(_) => "err".into(),
            }
        }
        "admins" => match s.admins(&mk_gid(u(a[0]))) {
            Ok(x) => admin_num(&x).to_string(),
            Err(_) => "err".into(),
        },
        "relays" => match s.group_relays(&mk_gid(u(a[0]))) {
            Ok(x) => nat_list(x.iter().map(|r| relay_num(&r.relay_url)).collect(), true),
            Err(_) => "err".into(),
        },
        "replace_relays" => {
            let rs: BTreeSet<RelayUrl> = if a[1] == "-" { BTreeSet::new() } else { a[1].split(',').map(|x| relay_url(u(x))).collect() };
            ok_err(s.replace_group_relays(&mk_gid(u(a[0])), rs))
        }
        "get_secret" => match s.get_group_exporter_secret(&mk_gid(u(a[0])), u(a[1])) {
            Ok(x) => opt_show(x, |x| (x.secret[0] as u64).to_string()),
            Err(_) => "err".into(),
        },
        "save_secret" => ok_err(s.save_group_exporter_secret(GroupExporterSecret {
            mls_group_id: mk_gid(u(a[0])),
            epoch: u(a[1]),
            secret: Secret::new([u(a[2]) as u8; 32]),
        })),
        "save_welcome" => ok_err(s.save_welcome(mk_welcome(a))),
        "find_welcome" => match s.find_welcome_by_event_id(&mk_eid(u(a[0]))) {
            Ok(x) => opt_show(x, show_welcome),
            Err(_) => "err".into(),
        },
        "pending_welcomes" => {
            let p = if a[0] == "-" && a[1] == "-" {
                None
            } else {
                Some(WPagination { limit: opt_u(a[0]).map(|x| x as usize), offset: opt_u(a[1]).map(|x| x as usize) })
            };
            match s.pending_welcomes(p) {
                Ok(l) => list(l.iter(), |w| show_welcome(w)),
                Err(_) => "err".into(),
            }
        }
        "save_pw" => ok_err(s.save_processed_welcome(mk_pw(a))),
        "find_pw" => match s.find_processed_welcome_by_event_id(&mk_eid(u(a[0]))) {
            Ok(x) => opt_show(x, show_pw),
            Err(_) => "err".into(),
        },
        "mls_write" => ok_err(mls_write(s, &mk_gid(u(a[0])), u(a[1]), u(a[2]))),
        "mls_read" => match mls_read(s, &mk_gid(u(a[0])), u(a[1])) {
            Ok(x) => opt_show(x, |v| v.to_string()),
            Err(_) => "err".into(),
        },
        "mls_delete" => ok_err(mls_delete(s, &mk_gid(u(a[0])), u(a[1]))),
        "snap_create" => {
            set_clock(u(a[2]));
            let r = ok_err(s.create_group_snapshot(&mk_gid(u(a[0])), &snap_name(u(a[1]))));
            set_clock(0);
            r
        }
        "snap_rollback" => ok_err(s.rollback_group_to_snapshot(&mk_gid(u(a[0])), &snap_name(u(a[1])))),
        "snap_release" => ok_err(s.release_group_snapshot(&mk_gid(u(a[0])), &snap_name(u(a[1])))),
        "snap_list" => snap_list_str(s, &mk_gid(u(a[0]))),
        "snap_prune" => match s.prune_expired_snapshots(u(a[0])) {
            Ok(n) => n.to_string(),
            Err(_) => "err".into(),
        },
        "dump" => dump(s),
        _ => "bad-op".into(),
    }
}

/// profile `lru`: a `save_message` that pushed a message out of its group's map (per-group cap) answers
/// `ok ev:<id>` — observed here by listing the group before and after (both listings only `peek`)
pub fn exec_lru<S: MdkStorageProvider>(s: &S, t: &[&str]) -> String {
    if t[0] != "save_message" {
        return exec(s, t);
    }
    let gid = mk_gid(u(t[2]));
    let ids = |s: &S| -> Vec<(u64, u64, u64)> {
        s.messages(&gid, Some(Pagination::new(Some(10000), Some(0))))
            .map(|l| l.iter().map(|m| (m.created_at.as_secs(), m.processed_at.as_secs(), eid_num(&m.id))).collect())
            .unwrap_or_default()
    };
    let before = ids(s);
    let r = exec(s, t);
    let after = ids(s);
    // oracle on the implementation alone: the victim of the per-group cap must be THE last message of the default
    // listing order, i.e. the minimum of (created_at, processed_at, id) among the messages held before the call
    let last = before.iter().min().cloned();
    let gone: Vec<(u64, u64, u64)> = before.into_iter().filter(|i| !after.iter().any(|a| a.2 == i.2)).collect();
    match gone.first() {
        Some(v) if r == "ok" => format!("ok ev:{}{}", v.2, if Some(*v) == last && gone.len() == 1 { "" } else { "!not-the-last-of-the-default-order" }),
        _ => r,
    }
}

pub fn new_backend(kind: &str, file: bool) -> Be {
    match kind {
        "mem" => Be::Mem(MdkMemoryStorage::new()),
        _ => {
            let _ = file;
            let dir = tempfile::Builder::new().prefix("vh-store").tempdir_in(scratch_dir()).unwrap();
            let s = MdkSqliteStorage::new_unencrypted(dir.path().join("db.sqlite")).unwrap();
            Be::Sql(s, Some(dir))
        }
    }
}

pub fn scratch_dir() -> std::path::PathBuf {
    let d = std::env::var("VERIF_SCRATCH").unwrap_or_else(|_| {
        if std::path::Path::new("/dev/shm").is_dir() { "/dev/shm/vh-scratch".into() } else { "/verif/.cache/scratch".into() }
    });
    std::fs::create_dir_all(&d).ok();
    d.into()
}

pub fn main(args: &[String]) -> i32 {
    let file = args.iter().any(|a| a == "--file");
    std::panic::set_hook(Box::new(|_| {}));
    let stdin = io::stdin();
    let out = io::stdout();
    let mut out = io::BufWriter::new(out.lock());
    let mut be = new_backend("mem", false);
    let mut lru = false;
    for line in stdin.lock().lines() {
        let line = line.unwrap();
        let t: Vec<&str> = line.split_whitespace().collect();
        if t.is_empty() {
            continue;
        }
        if t[0] == "backend" {
            if t[1] == "lru" {
                // memory backend with a small cache_size / max_messages_per_group (profile `lru`, Model/MemLru.lean)
                let limits = mdk_memory_storage::ValidationLimits::default()
                    .with_cache_size(u(t[2]) as usize)
                    .with_max_messages_per_group(u(t[3]) as usize);
                be = Be::Mem(MdkMemoryStorage::with_limits(limits));
                lru = true;
            } else {
                be = new_backend(t[1], file);
                lru = false;
            }
            writeln!(out, "ok").unwrap();
            continue;
        }
        let r = catch_unwind(AssertUnwindSafe(|| with!(&be, |s| if lru { exec_lru(s, &t) } else { exec(s, &t) })));
        match r {
            Ok(s) => writeln!(out, "{s}").unwrap(),
            Err(_) => writeln!(out, "panic").unwrap(),
        }
    }
    out.flush().unwrap();
    0
}
