//! `ffi` engine (property C06, first sentence: "… or (through the foreign-language bindings) any string
//! argument, the library returns a result instead of panicking").
//!
//! Drives the REAL `mdk-uniffi` crate through its exported Rust API (the functions and methods that carry
//! `#[uniffi::export]`; the generated C scaffolding only lifts/lowers the same values).  One session holds two
//! real `Mdk` binding objects (alice = A on a SQLite file in a temp dir, bob = B on `:memory:`) that were set
//! up through the binding API itself (key packages, six groups, welcomes, messages), so that op lines can
//! name valid ids symbolically (`$G0`, `$EMSG0`, `$W1`, …).  Every op line is one call of one exported
//! method; `catch_unwind` is around every call; after a panic the object is probed for a poisoned mutex.
//!
//! Line protocol (shared with `lean/Driver/FfiDrv.lean`, which predicts the parse-level outcome):
//!   `reset [cfg=<7 numbers|->]`           rebuild the session (fresh databases, fresh groups; both objects with that MdkConfig)
//!   `<method> on=A|B key=value …`         one call
//! string values:  `$TOKEN` [`^` upper-case] [`/N` first N bytes] [`+HEX` append bytes]  |  `h:HEX` (UTF-8
//!   bytes) | `r:HEX:N` (pattern repeated N times); JSON-typed strings carry a class hint `!ok|!bad|!unk` that
//!   only the model reads.  lists: `[]` or `v,v,…`; tag lists: `-` (None) | `[]` | `tag;tag` with tag = `()` or
//!   `v,v`; byte vectors: `zN` (N bytes 0x07) | `h:HEX` | `$TOKEN`; optional: `-` = None, `null` = Some(None).
//! output: `<result kind> | msg=<hex of the error / panic text> [poisoned=0|1]`
//!   result kind = `ok[:detail]` | `err:InvalidInput` | `err:Mdk` | `err:Storage` | `PANIC` | `bad-op`.

use std::collections::{BTreeSet, HashMap};
use std::io::{self, BufRead, Write};
use std::panic::{AssertUnwindSafe, catch_unwind};
use std::sync::{Arc, Mutex};

use keyring_core::api::{CredentialApi, CredentialStoreApi};
use keyring_core::{Credential, CredentialPersistence, Entry, Error as KErr};
use mdk_storage_traits::welcomes::types as wt;
use mdk_storage_traits::{GroupId, Secret};
use mdk_uniffi::{
    GroupDataUpdate, Mdk, MdkConfig, MdkUniffiError, Welcome, decrypt_group_image, derive_upload_keypair, new_mdk,
    new_mdk_unencrypted, new_mdk_with_key, prepare_group_image_for_upload,
};
use nostr::{EventBuilder, EventId, JsonUtil, Keys, Kind, PublicKey, RelayUrl, Tag, UnsignedEvent};

// ---- a trivial process-local keyring store (only `new_mdk` needs one) -------------------------------------

#[derive(Debug)]
struct KStore(Arc<Mutex<HashMap<(String, String), Vec<u8>>>>);
#[derive(Debug)]
struct KCred {
    spec: (String, String),
    map: Arc<Mutex<HashMap<(String, String), Vec<u8>>>>,
}
impl CredentialApi for KCred {
    fn set_secret(&self, secret: &[u8]) -> keyring_core::Result<()> {
        self.map.lock().unwrap_or_else(|e| e.into_inner()).insert(self.spec.clone(), secret.to_vec());
        Ok(())
    }
    fn get_secret(&self) -> keyring_core::Result<Vec<u8>> {
        self.map.lock().unwrap_or_else(|e| e.into_inner()).get(&self.spec).cloned().ok_or(KErr::NoEntry)
    }
    fn delete_credential(&self) -> keyring_core::Result<()> {
        self.map.lock().unwrap_or_else(|e| e.into_inner()).remove(&self.spec).map(|_| ()).ok_or(KErr::NoEntry)
    }
    fn get_credential(&self) -> keyring_core::Result<Option<Arc<Credential>>> {
        Ok(None)
    }
    fn get_specifiers(&self) -> Option<(String, String)> {
        Some(self.spec.clone())
    }
    fn as_any(&self) -> &dyn std::any::Any {
        self
    }
    fn debug_fmt(&self, f: &mut std::fmt::Formatter<'_>) -> std::fmt::Result {
        std::fmt::Debug::fmt(self, f)
    }
}
impl CredentialStoreApi for KStore {
    fn vendor(&self) -> String {
        "verif ffi store".into()
    }
    fn id(&self) -> String {
        "verif-ffi".into()
    }
    fn build(&self, service: &str, user: &str, _m: Option<&HashMap<&str, &str>>) -> keyring_core::Result<Entry> {
        Ok(Entry::new_with_credential(Arc::new(KCred { spec: (service.to_string(), user.to_string()), map: self.0.clone() })))
    }
    fn as_any(&self) -> &dyn std::any::Any {
        self
    }
    fn persistence(&self) -> CredentialPersistence {
        CredentialPersistence::ProcessOnly
    }
    fn debug_fmt(&self, f: &mut std::fmt::Formatter<'_>) -> std::fmt::Result {
        std::fmt::Debug::fmt(self, f)
    }
}

// ---- panic capture ---------------------------------------------------------------------------------------

static LAST_PANIC: Mutex<Option<String>> = Mutex::new(None);

fn install_hook() {
    std::panic::set_hook(Box::new(|info| {
        let msg = if let Some(s) = info.payload().downcast_ref::<&str>() {
            s.to_string()
        } else if let Some(s) = info.payload().downcast_ref::<String>() {
            s.clone()
        } else {
            "<non-string panic payload>".to_string()
        };
        let loc = info.location().map(|l| format!("{}:{}", l.file(), l.line())).unwrap_or_default();
        *LAST_PANIC.lock().unwrap_or_else(|e| e.into_inner()) = Some(format!("{msg} @ {loc}"));
    }));
}

// ---- session ---------------------------------------------------------------------------------------------

const RELAY: &str = "wss://relay.example.com";

struct Sess {
    dir: tempfile::TempDir,
    a: Mdk,
    b: Mdk,
    toks: HashMap<String, String>,
    btoks: HashMap<String, Vec<u8>>,
    welcomes: HashMap<String, Welcome>,
    tmpn: usize,
}

fn clone_welcome(w: &Welcome) -> Welcome {
    Welcome {
        id: w.id.clone(),
        event_json: w.event_json.clone(),
        mls_group_id: w.mls_group_id.clone(),
        nostr_group_id: w.nostr_group_id.clone(),
        group_name: w.group_name.clone(),
        group_description: w.group_description.clone(),
        group_image_hash: w.group_image_hash.clone(),
        group_image_key: w.group_image_key.clone(),
        group_image_nonce: w.group_image_nonce.clone(),
        group_admin_pubkeys: w.group_admin_pubkeys.clone(),
        group_relays: w.group_relays.clone(),
        welcomer: w.welcomer.clone(),
        member_count: w.member_count,
        state: w.state.clone(),
        wrapper_event_id: w.wrapper_event_id.clone(),
    }
}

/// the serde form of `mdk_storage_traits::welcomes::types::Welcome` (what `accept_welcome_json` expects)
fn welcome_json(w: &Welcome) -> Option<String> {
    let arr32 = |v: &Option<Vec<u8>>| -> Option<Option<[u8; 32]>> {
        match v {
            None => Some(None),
            Some(b) => Some(Some(<[u8; 32]>::try_from(b.as_slice()).ok()?)),
        }
    };
    let nonce: Option<Secret<[u8; 12]>> = match &w.group_image_nonce {
        None => None,
        Some(b) => Some(Secret::new(<[u8; 12]>::try_from(b.as_slice()).ok()?)),
    };
    let st = wt::Welcome {
        id: EventId::from_hex(&w.id).ok()?,
        event: UnsignedEvent::from_json(&w.event_json).ok()?,
        mls_group_id: GroupId::from_slice(&hex::decode(&w.mls_group_id).ok()?),
        nostr_group_id: <[u8; 32]>::try_from(hex::decode(&w.nostr_group_id).ok()?.as_slice()).ok()?,
        group_name: w.group_name.clone(),
        group_description: w.group_description.clone(),
        group_image_hash: arr32(&w.group_image_hash)?,
        group_image_key: arr32(&w.group_image_key)?.map(Secret::new),
        group_image_nonce: nonce,
        group_admin_pubkeys: w.group_admin_pubkeys.iter().map(|p| PublicKey::from_hex(p).ok()).collect::<Option<BTreeSet<_>>>()?,
        group_relays: w.group_relays.iter().map(|r| RelayUrl::parse(r).ok()).collect::<Option<BTreeSet<_>>>()?,
        welcomer: PublicKey::from_hex(&w.welcomer).ok()?,
        member_count: w.member_count,
        state: w.state.parse().ok()?,
        wrapper_event_id: EventId::from_hex(&w.wrapper_event_id).ok()?,
    };
    serde_json::to_string(&st).ok()
}

/// `"kind":k` → `"kind":k+65536` in an event's JSON text
fn respell_kind(json: &str, k: u32) -> Result<String, String> {
    let (from, to) = (format!("\"kind\":{k}"), format!("\"kind\":{}", k + 65536));
    if json.matches(&from).count() != 1 {
        return Err(format!("respell_kind: {from} does not occur exactly once"));
    }
    Ok(json.replacen(&from, &to, 1))
}

/// prefix of a set-up error that only says the wall clock left the session's own acceptance window during the set-up
const CLOCK_TICK: &str = "clock-moved-during-setup";

fn now_secs() -> u64 {
    nostr::Timestamp::now().as_secs()
}

/// wait until the wall clock is in the first half of a second, so that no tick falls into the next few milliseconds
fn settle() {
    loop {
        let d = std::time::SystemTime::now().duration_since(std::time::UNIX_EPOCH).unwrap();
        if d.subsec_millis() < 500 {
            return;
        }
        std::thread::sleep(std::time::Duration::from_millis(1000 - d.subsec_millis() as u64 + 2));
    }
}

/// test aid for the path above: `VH_FFI_STALL=<ms>,<n>` holds the first n set-ups between creating and delivering the first message
fn stall_for_test() {
    static DONE: std::sync::atomic::AtomicU32 = std::sync::atomic::AtomicU32::new(0);
    let Ok(v) = std::env::var("VH_FFI_STALL") else { return };
    let Some((ms, n)) = v.split_once(',') else { return };
    let (Ok(ms), Ok(n)) = (ms.parse::<u64>(), n.parse::<u32>()) else { return };
    if DONE.fetch_add(1, std::sync::atomic::Ordering::SeqCst) < n {
        std::thread::sleep(std::time::Duration::from_millis(ms));
    }
}

fn e2s(e: MdkUniffiError) -> String {
    format!("{e}")
}

fn tiny_png() -> Vec<u8> {
    // 1x1 RGBA PNG
    vec![
        0x89, 0x50, 0x4E, 0x47, 0x0D, 0x0A, 0x1A, 0x0A, 0x00, 0x00, 0x00, 0x0D, 0x49, 0x48, 0x44, 0x52, 0x00, 0x00, 0x00, 0x01, 0x00, 0x00, 0x00, 0x01, 0x08, 0x06, 0x00, 0x00, 0x00, 0x1F,
        0x15, 0xC4, 0x89, 0x00, 0x00, 0x00, 0x0D, 0x49, 0x44, 0x41, 0x54, 0x78, 0x9C, 0x63, 0xF8, 0xCF, 0xC0, 0xF0, 0x1F, 0x00, 0x05, 0x00, 0x01, 0xFF, 0x89, 0x99, 0x3D, 0x1D, 0x00, 0x00,
        0x00, 0x00, 0x49, 0x45, 0x4E, 0x44, 0xAE, 0x42, 0x60, 0x82,
    ]
}

impl Sess {
    /// a signed kind-443 event around a key package that `holder` created for `keys` (binding API only)
    fn kp_event(holder: &Mdk, keys: &Keys) -> Result<String, String> {
        let kp = holder.create_key_package_for_event(keys.public_key().to_hex(), vec![RELAY.to_string()]).map_err(e2s)?;
        let tags: Vec<Tag> = kp.tags.into_iter().map(|t| Tag::parse(t).map_err(|e| e.to_string())).collect::<Result<_, _>>()?;
        let ev = EventBuilder::new(Kind::MlsKeyPackage, kp.key_package).tags(tags).sign_with_keys(keys).map_err(|e| e.to_string())?;
        Ok(ev.as_json())
    }

    fn new(cfg: &str) -> Result<Sess, String> {
        // SQLite's fsyncs dominate the run on a disk-backed /tmp (4 s per session against 60 ms)
        let dir = if std::path::Path::new("/dev/shm").is_dir() {
            tempfile::Builder::new().prefix("vh-ffi-").tempdir_in("/dev/shm")
        } else {
            tempfile::Builder::new().prefix("vh-ffi-").tempdir()
        }
        .map_err(|e| e.to_string())?;
        let a = new_mdk_unencrypted(dir.path().join("a.db").to_string_lossy().to_string(), Self::cfg(cfg).ok_or("cfg")?).map_err(e2s)?;
        let b = new_mdk_unencrypted(":memory:".to_string(), Self::cfg(cfg).ok_or("cfg")?).map_err(e2s)?;
        let (alice, bob, carol, dave) = (Keys::generate(), Keys::generate(), Keys::generate(), Keys::generate());
        let mut toks: HashMap<String, String> = HashMap::new();
        let mut btoks: HashMap<String, Vec<u8>> = HashMap::new();
        let mut welcomes = HashMap::new();
        toks.insert("PKA".into(), alice.public_key().to_hex());
        toks.insert("PKB".into(), bob.public_key().to_hex());
        toks.insert("PKC".into(), carol.public_key().to_hex());
        toks.insert("PKD".into(), dave.public_key().to_hex());
        toks.insert("RELAY".into(), RELAY.to_string());
        toks.insert("MEM".into(), ":memory:".to_string());
        for g in 0..6usize {
            let kpj = Self::kp_event(&b, &bob)?;
            let res = a
                .create_group(alice.public_key().to_hex(), vec![kpj], format!("group {g}"), "set up by the ffi engine".into(),
                    vec![RELAY.to_string()], vec![alice.public_key().to_hex()])
                .map_err(e2s)?;
            let gid = res.group.mls_group_id.clone();
            a.merge_pending_commit(gid.clone()).map_err(e2s)?;
            let rumor = res.welcome_rumors_json.first().ok_or("no welcome rumor")?.clone();
            let wrapper = EventId::from_slice(&[0x40 + g as u8; 32]).map_err(|e| e.to_string())?.to_hex();
            toks.insert(format!("G{g}"), gid.clone());
            toks.insert(format!("NG{g}"), res.group.nostr_group_id.clone());
            toks.insert(format!("RUMOR{g}"), rumor.clone());
            if g == 5 {
                toks.insert("RUMOR5K".into(), respell_kind(&rumor, 444)?);
            }
            toks.insert(format!("EWRAP{g}"), wrapper.clone());
            if g == 5 {
                continue; // the sixth invitation stays unprocessed: a valid `process_welcome` target
            }
            let w = b.process_welcome(wrapper, rumor).map_err(e2s)?;
            toks.insert(format!("EW{g}"), w.id.clone());
            toks.insert(format!("WJ{g}"), welcome_json(&w).ok_or("welcome json")?);
            if g == 0 {
                b.accept_welcome(clone_welcome(&w)).map_err(e2s)?;
                // with a window of a second or less (`zeros`, `mixed`) a tick of the wall clock between the two calls makes the
                // message older than max_event_age_secs, and validate_created_at refusing it is what that configuration asks for,
                // not a failed set-up: start in the first half of a second, and when the clock is SEEN to have moved by more than
                // the window, have `main` build the session again (any other refusal stays a setup-failed)
                let max_age = Self::cfg(cfg).flatten().and_then(|c| c.max_event_age_secs).unwrap_or(3_888_000);
                if max_age <= 1 {
                    settle();
                }
                let t0 = now_secs();
                let m0 = a.create_message(gid.clone(), alice.public_key().to_hex(), "first".into(), 9, None).map_err(e2s)?;
                stall_for_test();
                if let Err(e) = b.process_message(m0) {
                    let moved = now_secs().saturating_sub(t0);
                    return Err(if moved > max_age { format!("{CLOCK_TICK} {moved}s > {max_age}s: {}", e2s(e)) } else { e2s(e) });
                }
                let msgs = b.get_messages(gid.clone(), None, None, None).map_err(e2s)?;
                toks.insert("EMSG0".into(), msgs.first().ok_or("no message")?.id.clone());
                toks.insert("EWRAPMSG0".into(), msgs.first().ok_or("no message")?.event_id.clone());
                let m1 = a.create_message(gid.clone(), alice.public_key().to_hex(), "second".into(), 9, None).map_err(e2s)?;
                // the same event with its kind re-spelled modulo 2^16 (nostr's KindVisitor::visit_u64 casts `v as u16`)
                toks.insert("MSGJ1K".into(), respell_kind(&m1, 445)?);
                toks.insert("MSGJ1".into(), m1);
            }
            welcomes.insert(format!("W{g}"), w);
        }
        // key-package events nobody has consumed yet: carol's (for add_members), dave's (for create_group)
        let kpjc = Self::kp_event(&b, &carol)?;
        toks.insert("KPJCK".into(), respell_kind(&kpjc, 443)?);
        toks.insert("KPJC".into(), kpjc);
        toks.insert("KPJD".into(), Self::kp_event(&b, &dave)?);
        // group image material through the binding's free functions
        let up = prepare_group_image_for_upload(tiny_png(), "image/png".into()).map_err(e2s)?;
        btoks.insert("PNG".into(), tiny_png());
        btoks.insert("ENCIMG".into(), up.encrypted_data.clone());
        btoks.insert("IMGHASH".into(), up.encrypted_hash.clone());
        btoks.insert("IMGKEY".into(), up.image_key.clone());
        btoks.insert("IMGNONCE".into(), up.image_nonce.clone());
        Ok(Sess { dir, a, b, toks, btoks, welcomes, tmpn: 0 })
    }

    // ---- argument decoding ---------------------------------------------------------------------------

    fn sval(&mut self, raw: &str) -> Option<String> {
        let s = raw.split('!').next()?;
        if let Some(rest) = s.strip_prefix("h:") {
            return String::from_utf8(hex::decode(rest).ok()?).ok();
        }
        if let Some(rest) = s.strip_prefix("r:") {
            let (pat, n) = rest.split_once(':')?;
            let pat = String::from_utf8(hex::decode(pat).ok()?).ok()?;
            let n: usize = n.parse().ok()?;
            if pat.len().saturating_mul(n) > (64 << 20) {
                return None;
            }
            return Some(pat.repeat(n));
        }
        let rest = s.strip_prefix('$')?;
        let end = rest.find(|c: char| !(c.is_ascii_uppercase() || c.is_ascii_digit() || c == '_')).unwrap_or(rest.len());
        let (name, mut mods) = rest.split_at(end);
        let mut v = if name == "TMP" {
            self.tmpn += 1;
            self.dir.path().join(format!("t{}.db", self.tmpn)).to_string_lossy().to_string()
        } else if name == "DIR" {
            self.dir.path().to_string_lossy().to_string()
        } else {
            self.toks.get(name)?.clone()
        };
        while !mods.is_empty() {
            let (m, tail) = mods.split_at(1);
            let end = tail.find(['^', '/', '+']).unwrap_or(tail.len());
            let (arg, next) = tail.split_at(end);
            match m {
                "^" if arg.is_empty() => v = v.to_ascii_uppercase(),
                "/" => v = v.chars().take(arg.parse::<usize>().ok()?).collect(),
                "+" => v.push_str(&String::from_utf8(hex::decode(arg).ok()?).ok()?),
                _ => return None,
            }
            mods = next;
        }
        Some(v)
    }
    fn slist(&mut self, raw: &str) -> Option<Vec<String>> {
        if raw == "[]" {
            return Some(vec![]);
        }
        raw.split(',').map(|x| self.sval(x)).collect()
    }
    fn tags(&mut self, raw: &str) -> Option<Option<Vec<Vec<String>>>> {
        if raw == "-" {
            return Some(None);
        }
        if raw == "[]" {
            return Some(Some(vec![]));
        }
        let mut out = Vec::new();
        for t in raw.split(';') {
            out.push(if t == "()" { vec![] } else { self.slist(t)? });
        }
        Some(Some(out))
    }
    fn bytes(&self, raw: &str) -> Option<Vec<u8>> {
        if let Some(n) = raw.strip_prefix('z') {
            let n: usize = n.parse().ok()?;
            if n > (64 << 20) {
                return None;
            }
            return Some(vec![7u8; n]);
        }
        if let Some(h) = raw.strip_prefix("h:") {
            return hex::decode(h).ok();
        }
        self.btoks.get(raw.strip_prefix('$')?).cloned()
    }
    fn optbytes(&self, raw: &str) -> Option<Option<Vec<u8>>> {
        if raw == "-" { Some(None) } else { self.bytes(raw).map(Some) }
    }
    /// `-` = leave alone, `null` = clear, otherwise bytes
    fn optoptbytes(&self, raw: &str) -> Option<Option<Option<Vec<u8>>>> {
        match raw {
            "-" => Some(None),
            "null" => Some(Some(None)),
            _ => self.bytes(raw).map(|b| Some(Some(b))),
        }
    }
    fn optstr(&mut self, raw: &str) -> Option<Option<String>> {
        if raw == "-" { Some(None) } else { self.sval(raw).map(Some) }
    }
    fn optlist(&mut self, raw: &str) -> Option<Option<Vec<String>>> {
        if raw == "-" { Some(None) } else { self.slist(raw).map(Some) }
    }
    fn cfg(raw: &str) -> Option<Option<MdkConfig>> {
        if raw == "-" {
            return Some(None);
        }
        let p: Vec<&str> = raw.split(',').collect();
        if p.len() != 7 {
            return None;
        }
        fn o<T: std::str::FromStr>(s: &str) -> Option<Option<T>> {
            if s == "-" { Some(None) } else { s.parse::<T>().ok().map(Some) }
        }
        Some(Some(MdkConfig {
            max_event_age_secs: o(p[0])?,
            max_future_skew_secs: o(p[1])?,
            out_of_order_tolerance: o(p[2])?,
            maximum_forward_distance: o(p[3])?,
            max_past_epochs: o(p[4])?,
            epoch_snapshot_retention: o(p[5])?,
            snapshot_ttl_seconds: o(p[6])?,
        }))
    }
    /// `w=$Wk` plus overrides `w.<field>=…`
    fn welcome(&mut self, t: &[&str]) -> Option<Welcome> {
        let base = field(t, "w")?;
        let mut w = clone_welcome(self.welcomes.get(base.strip_prefix('$')?)?);
        for tok in t {
            let Some(rest) = tok.strip_prefix("w.") else { continue };
            let (k, v) = rest.split_once('=')?;
            match k {
                "id" => w.id = self.sval(v)?,
                "event" => w.event_json = self.sval(v)?,
                "gid" => w.mls_group_id = self.sval(v)?,
                "ngid" => w.nostr_group_id = self.sval(v)?,
                "name" => w.group_name = self.sval(v)?,
                "desc" => w.group_description = self.sval(v)?,
                "hash" => w.group_image_hash = self.optbytes(v)?,
                "key" => w.group_image_key = self.optbytes(v)?,
                "nonce" => w.group_image_nonce = self.optbytes(v)?,
                "admins" => w.group_admin_pubkeys = self.slist(v)?,
                "relays" => w.group_relays = self.slist(v)?,
                "welcomer" => w.welcomer = self.sval(v)?,
                "count" => w.member_count = v.parse().ok()?,
                "state" => w.state = self.sval(v)?,
                "wrapper" => w.wrapper_event_id = self.sval(v)?,
                _ => return None,
            }
        }
        Some(w)
    }
    fn update(&mut self, t: &[&str]) -> Option<GroupDataUpdate> {
        let mut u = GroupDataUpdate { name: None, description: None, image_hash: None, image_key: None, image_nonce: None, relays: None, admins: None };
        for tok in t {
            let Some(rest) = tok.strip_prefix("u.") else { continue };
            let (k, v) = rest.split_once('=')?;
            match k {
                "name" => u.name = self.optstr(v)?,
                "desc" => u.description = self.optstr(v)?,
                "hash" => u.image_hash = self.optoptbytes(v)?,
                "key" => u.image_key = self.optoptbytes(v)?,
                "nonce" => u.image_nonce = self.optoptbytes(v)?,
                "relays" => u.relays = self.optlist(v)?,
                "admins" => u.admins = self.optlist(v)?,
                _ => return None,
            }
        }
        Some(u)
    }

    // ---- one call --------------------------------------------------------------------------------------

    /// Ok(closure result) or None when the op line itself is malformed.  The CALL happens inside the returned
    /// closure so that argument decoding is outside `catch_unwind`'s verdict.
    fn exec(&mut self, t: &[&str]) -> Option<String> {
        let on_b = field(t, "on").unwrap_or("B") == "B";
        macro_rules! s { ($k:expr) => { { let raw = field(t, $k)?; self.sval(raw)? } }; }
        macro_rules! l { ($k:expr) => { { let raw = field(t, $k)?; self.slist(raw)? } }; }
        macro_rules! n { ($k:expr, $ty:ty) => { field(t, $k)?.parse::<$ty>().ok()? }; }
        macro_rules! on32 { ($k:expr) => { { let raw = field(t, $k)?; if raw == "-" { None } else { Some(raw.parse::<u32>().ok()?) } } }; }
        let m = t[0];
        // free functions first (no object)
        match m {
            "new_mdk_unencrypted" => {
                let (p, c) = (s!("path"), Self::cfg(field(t, "cfg")?)?);
                return Some(guard(None, move || show(new_mdk_unencrypted(p, c), |_| String::new())));
            }
            "new_mdk_with_key" => {
                let (p, k, c) = (s!("path"), self.bytes(field(t, "key")?)?, Self::cfg(field(t, "cfg")?)?);
                return Some(guard(None, move || show(new_mdk_with_key(p, k, c), |_| String::new())));
            }
            "new_mdk" => {
                let (p, sv, kid, c) = (s!("path"), s!("service"), s!("keyid"), Self::cfg(field(t, "cfg")?)?);
                match field(t, "store")? {
                    "1" => keyring_core::set_default_store(Arc::new(KStore(Arc::new(Mutex::new(HashMap::new()))))),
                    _ => {
                        keyring_core::unset_default_store();
                    }
                };
                let r = guard(None, move || show(new_mdk(p, sv, kid, c), |_| String::new()));
                keyring_core::unset_default_store();
                return Some(r);
            }
            "prepare_group_image_for_upload" => {
                let (d, mime) = (self.bytes(field(t, "data")?)?, s!("mime"));
                return Some(guard(None, move || show(prepare_group_image_for_upload(d, mime), |u| format!(":size={}", u.encrypted_size))));
            }
            "decrypt_group_image" => {
                let (d, h, k, nn) = (self.bytes(field(t, "data")?)?, self.optbytes(field(t, "hash")?)?, self.bytes(field(t, "key")?)?, self.bytes(field(t, "nonce")?)?);
                return Some(guard(None, move || show(decrypt_group_image(d, h, k, nn), |v| format!(":len={}", v.len()))));
            }
            "derive_upload_keypair" => {
                let (k, v) = (self.bytes(field(t, "key")?)?, n!("version", u16));
                return Some(guard(None, move || show(derive_upload_keypair(k, v), |_| String::new())));
            }
            _ => {}
        }
        // decode every argument BEFORE borrowing the object
        enum Call {
            Kp(String, Vec<String>),
            KpOpt(String, Vec<String>, bool),
            ParseKp(String),
            GetGroups,
            GetGroup(String),
            NeedUpd(u64),
            GetMembers(String),
            GetMessages(String, Option<u32>, Option<u32>, Option<String>),
            GetMessage(String, String),
            GetLast(String, String),
            PendingWelcomes(Option<u32>, Option<u32>),
            GetWelcome(String),
            ProcessWelcome(String, String),
            Accept(Welcome),
            AcceptJson(String),
            Decline(Welcome),
            DeclineJson(String),
            GetRelays(String),
            CreateGroup(String, Vec<String>, String, String, Vec<String>, Vec<String>),
            AddMembers(String, Vec<String>),
            RemoveMembers(String, Vec<String>),
            Merge(String),
            Clear(String),
            Sync(String),
            CreateMessage(String, String, String, u16, Option<Vec<Vec<String>>>),
            SelfUpdate(String),
            Leave(String),
            UpdateData(String, GroupDataUpdate),
            ProcessMessage(String),
        }
        let call = match m {
            "create_key_package_for_event" => Call::Kp(s!("pk"), l!("relays")),
            "create_key_package_for_event_with_options" => Call::KpOpt(s!("pk"), l!("relays"), field(t, "protected")? == "1"),
            "parse_key_package" => Call::ParseKp(s!("j")),
            "get_groups" => Call::GetGroups,
            "get_group" => Call::GetGroup(s!("g")),
            "groups_needing_self_update" => Call::NeedUpd(n!("threshold", u64)),
            "get_members" => Call::GetMembers(s!("g")),
            "get_messages" => {
                let so = self.optstr(field(t, "sort")?)?;
                Call::GetMessages(s!("g"), on32!("limit"), on32!("offset"), so)
            }
            "get_message" => Call::GetMessage(s!("g"), s!("e")),
            "get_last_message" => Call::GetLast(s!("g"), s!("sort")),
            "get_pending_welcomes" => Call::PendingWelcomes(on32!("limit"), on32!("offset")),
            "get_welcome" => Call::GetWelcome(s!("e")),
            "process_welcome" => Call::ProcessWelcome(s!("e"), s!("j")),
            "accept_welcome" => Call::Accept(self.welcome(t)?),
            "accept_welcome_json" => Call::AcceptJson(s!("j")),
            "decline_welcome" => Call::Decline(self.welcome(t)?),
            "decline_welcome_json" => Call::DeclineJson(s!("j")),
            "get_relays" => Call::GetRelays(s!("g")),
            "create_group" => Call::CreateGroup(s!("pk"), l!("kps"), s!("name"), s!("desc"), l!("relays"), l!("admins")),
            "add_members" => Call::AddMembers(s!("g"), l!("kps")),
            "remove_members" => Call::RemoveMembers(s!("g"), l!("pks")),
            "merge_pending_commit" => Call::Merge(s!("g")),
            "clear_pending_commit" => Call::Clear(s!("g")),
            "sync_group_metadata_from_mls" => Call::Sync(s!("g")),
            "create_message" => {
                let tg = self.tags(field(t, "tags")?)?;
                Call::CreateMessage(s!("g"), s!("pk"), s!("content"), n!("kind", u16), tg)
            }
            "self_update" => Call::SelfUpdate(s!("g")),
            "leave_group" => Call::Leave(s!("g")),
            "update_group_data" => {
                let u = self.update(t)?;
                Call::UpdateData(s!("g"), u)
            }
            "process_message" => Call::ProcessMessage(s!("j")),
            _ => return None,
        };
        let o: &Mdk = if on_b { &self.b } else { &self.a };
        let unit = |_: &()| String::new();
        fn upd(u: &mdk_uniffi::UpdateGroupResult) -> String {
            format!(":welcomes={}", u.welcome_rumors_json.as_ref().map(|v| v.len()).unwrap_or(0))
        }
        Some(guard(Some(o), move || match call {
            Call::Kp(pk, r) => show(o.create_key_package_for_event(pk, r), |k| format!(":tags={}", k.tags.len())),
            Call::KpOpt(pk, r, p) => show(o.create_key_package_for_event_with_options(pk, r, p), |k| format!(":tags={}", k.tags.len())),
            Call::ParseKp(j) => show(o.parse_key_package(j), |_| String::new()),
            Call::GetGroups => show(o.get_groups(), |v| format!(":n={}", v.len())),
            Call::GetGroup(g) => show(o.get_group(g), |v| if v.is_some() { ":some".into() } else { ":none".into() }),
            Call::NeedUpd(n) => show(o.groups_needing_self_update(n), |v| format!(":n={}", v.len())),
            Call::GetMembers(g) => show(o.get_members(g), |v| format!(":n={}", v.len())),
            Call::GetMessages(g, l, of, so) => show(o.get_messages(g, l, of, so), |v| format!(":n={}", v.len())),
            Call::GetMessage(g, e) => show(o.get_message(g, e), |v| if v.is_some() { ":some".into() } else { ":none".into() }),
            Call::GetLast(g, so) => show(o.get_last_message(g, so), |v| if v.is_some() { ":some".into() } else { ":none".into() }),
            Call::PendingWelcomes(l, of) => show(o.get_pending_welcomes(l, of), |v| format!(":n={}", v.len())),
            Call::GetWelcome(e) => show(o.get_welcome(e), |v| if v.is_some() { ":some".into() } else { ":none".into() }),
            Call::ProcessWelcome(e, j) => show(o.process_welcome(e, j), |w| format!(":{}", w.state)),
            Call::Accept(w) => show(o.accept_welcome(w), unit),
            Call::AcceptJson(j) => show(o.accept_welcome_json(j), unit),
            Call::Decline(w) => show(o.decline_welcome(w), unit),
            Call::DeclineJson(j) => show(o.decline_welcome_json(j), unit),
            Call::GetRelays(g) => show(o.get_relays(g), |v| format!(":n={}", v.len())),
            Call::CreateGroup(pk, kps, name, desc, relays, admins) => {
                show(o.create_group(pk, kps, name, desc, relays, admins), |r| format!(":welcomes={}", r.welcome_rumors_json.len()))
            }
            Call::AddMembers(g, kps) => show(o.add_members(g, kps), upd),
            Call::RemoveMembers(g, pks) => show(o.remove_members(g, pks), upd),
            Call::Merge(g) => show(o.merge_pending_commit(g), unit),
            Call::Clear(g) => show(o.clear_pending_commit(g), unit),
            Call::Sync(g) => show(o.sync_group_metadata_from_mls(g), unit),
            Call::CreateMessage(g, pk, c, k, tg) => show(o.create_message(g, pk, c, k, tg), |_| String::new()),
            Call::SelfUpdate(g) => show(o.self_update(g), upd),
            Call::Leave(g) => show(o.leave_group(g), upd),
            Call::UpdateData(g, u) => show(o.update_group_data(g, u), upd),
            Call::ProcessMessage(j) => show(o.process_message(j), |r| {
                use mdk_uniffi::ProcessMessageResult as P;
                match r {
                    P::ApplicationMessage { .. } => ":application",
                    P::Proposal { .. } => ":proposal",
                    P::PendingProposal { .. } => ":pending_proposal",
                    P::ExternalJoinProposal { .. } => ":external_join",
                    P::Commit { .. } => ":commit",
                    P::Unprocessable { .. } => ":unprocessable",
                    P::IgnoredProposal { .. } => ":ignored_proposal",
                    P::PreviouslyFailed => ":previously_failed",
                }
                .to_string()
            }),
        }))
    }
}

fn field<'a>(t: &'a [&'a str], key: &str) -> Option<&'a str> {
    t.iter().find_map(|x| x.strip_prefix(key).and_then(|r| r.strip_prefix('=')))
}

fn clip(s: &str) -> String {
    let mut end = s.len().min(160);
    while !s.is_char_boundary(end) {
        end -= 1;
    }
    hex::encode(&s.as_bytes()[..end])
}

fn show<T>(r: Result<T, MdkUniffiError>, detail: impl FnOnce(&T) -> String) -> String {
    match r {
        Ok(v) => format!("ok{} | msg=", detail(&v)),
        Err(MdkUniffiError::InvalidInput(m)) => format!("err:InvalidInput | msg={}", clip(&m)),
        Err(MdkUniffiError::Mdk(m)) => format!("err:Mdk | msg={}", clip(&m)),
        Err(MdkUniffiError::Storage(m)) => format!("err:Storage | msg={}", clip(&m)),
    }
}

fn is_poisoned(o: &Mdk) -> bool {
    match catch_unwind(AssertUnwindSafe(|| o.get_groups())) {
        Ok(Err(MdkUniffiError::Mdk(m))) => m.contains("poisoned"),
        Ok(_) => false,
        Err(_) => true,
    }
}

/// run one call under `catch_unwind`; a panic is reported with its message and the state of the object's mutex
fn guard(o: Option<&Mdk>, f: impl FnOnce() -> String) -> String {
    *LAST_PANIC.lock().unwrap_or_else(|e| e.into_inner()) = None;
    match catch_unwind(AssertUnwindSafe(f)) {
        Ok(s) => s,
        Err(_) => {
            let msg = LAST_PANIC.lock().unwrap_or_else(|e| e.into_inner()).take().unwrap_or_default();
            let p = o.map(is_poisoned).unwrap_or(false);
            format!("PANIC | msg={} poisoned={}", clip(&msg), p as u8)
        }
    }
}

pub fn main(_args: &[String]) -> i32 {
    install_hook();
    let stdin = io::stdin();
    let out = io::stdout();
    let mut out = io::BufWriter::new(out.lock());
    let mut sess: Option<Sess> = None;
    for line in stdin.lock().lines() {
        let line = line.unwrap();
        let t: Vec<&str> = line.split_whitespace().collect();
        if t.is_empty() || t[0].starts_with('#') {
            continue;
        }
        if t[0] == "reset" || sess.is_none() {
            sess = None; // drop the old databases first
            let cfg = if t[0] == "reset" { field(&t, "cfg").unwrap_or("-").to_string() } else { "-".to_string() };
            // a session whose own window the clock left during the set-up is built again (a few times: a persistent
            // refusal is reported with its message like any other)
            let mut built = catch_unwind(|| Sess::new(&cfg));
            let mut rebuilt = 0;
            for _ in 0..8 {
                if !matches!(&built, Ok(Err(e)) if e.starts_with(CLOCK_TICK)) {
                    break;
                }
                rebuilt += 1;
                built = catch_unwind(|| Sess::new(&cfg));
            }
            match built {
                Ok(Ok(s)) => {
                    if t[0] == "reset" {
                        let lens: Vec<String> = ["G0", "EMSG0", "PKA", "NG0", "EW1", "EWRAP1"].iter().map(|k| format!("{k}={}", s.toks[*k].len())).collect();
                        writeln!(out, "ok:reset | msg= {} rebuilt={rebuilt}", lens.join(" ")).unwrap();
                    }
                    sess = Some(s);
                }
                Ok(Err(e)) => {
                    writeln!(out, "setup-failed | msg={}", clip(&e)).unwrap();
                    continue;
                }
                Err(_) => {
                    let msg = LAST_PANIC.lock().unwrap_or_else(|e| e.into_inner()).take().unwrap_or_default();
                    writeln!(out, "PANIC | msg={} poisoned=0 in-setup=1", clip(&msg)).unwrap();
                    continue;
                }
            }
            if t[0] == "reset" {
                continue;
            }
        }
        let s = sess.as_mut().unwrap();
        let r = s.exec(&t).unwrap_or_else(|| "bad-op | msg=".into());
        let poisoned = r.contains("poisoned=1");
        writeln!(out, "{r}").unwrap();
        if poisoned {
            // every later call on that object would fail with "mutex poisoned": start a fresh session
            sess = None;
        }
    }
    out.flush().unwrap();
    0
}
