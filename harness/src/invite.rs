//! `invite` engine (property C16): wraps a `world::World` (real `MDK` instances) and adds what the
//! invitation property needs: several groups per client, invitations with known post-commit state,
//! delivery of one welcome rumor under any number of wrapper ids, structurally broken / undecodable /
//! id-less / misaddressed rumors, accept / decline of the stored welcome, group traffic in between, a
//! decrypt probe, and — after EVERY command — the complete invitation-relevant view of the acting
//! client: every known group's record (state, epoch, name/description lengths, admins, relays,
//! self-update flag), its MLS state token / epoch / member count, every welcome's stored state and
//! wrapper, every processed-welcome record, and the pending-welcome listing.
//!
//! Line protocol (one command per line, one observation per line `<result> | <view>`):
//!   setup <mem|sql>                 clients 0..3 (0 = A, 1 = R the recipient under test on the given
//!                                   backend, 2 = C, 3 = D); each publishes two key packages (kp 2i, 2i+1)
//!   group <i> <name> <kp,kp|->      client i creates group g (next index), name length = <name>,
//!                                   two relays; one welcome per key package  → `g=.. w=..`
//!   invite <i> <g> <kp>             add_members + merge_pending_commit by i → `w=.. ev=..`
//!   process <j> <w> <salt> <variant>   process_welcome(wrapper(w,salt), variant of rumor w)
//!        variants: ok | noid | badkind | fewtags | noenc | badb64 | garbage   (any client j: a welcome
//!        addressed to somebody else fails in OpenMLS and is recorded as failed)
//!   accept <j> <w> | decline <j> <w>   on the welcome stored under rumor id of w
//!   commit <i> <g>                  self_update + merge by i → `ev=..`
//!   rename <i> <g> <name>           update_group_data(name) + merge by i → `ev=..`
//!   rotate <i> <g> <n>              update_group_data(nostr_group_id := 5A…|n) + merge by i → `ev=.. nid=..`
//!   rotonto <i> <g> <g2>            the same, ONTO the nostr group id group g2 currently has (as its last committer
//!                                   stored it): the hostile inviter's move (the id is public, it is the `h` tag)
//!   remove <i> <g> <j>              remove_members + merge → `ev=..`
//!   deliver <j> <ev>                process_message
//!   probe <j> <g> <i>               i sends a fresh message in g, j processes it → `app|…`
//!   view <j>                        nothing, just the view
//! Nostr group ids are shown as small numbers assigned by first occurrence (`I<n>` in a group record, `i<n>` in a
//! stored welcome, `nid=<n>` in the result of group / invite / commit / rename / remove / rotate / rotonto / forge:
//! the id in force for the acting client after the operation).

use std::collections::{BTreeSet, HashMap};
use std::io::{self, BufRead, Write};
use std::panic::{AssertUnwindSafe, catch_unwind};

use mdk_core::MDK;
use mdk_core::groups::{NostrGroupConfigData, NostrGroupDataUpdate};
use mdk_core::messages::MessageProcessingResult;
use mdk_storage_traits::groups::types::{GroupState, SelfUpdateState};
use mdk_storage_traits::groups::GroupStorage;
use mdk_storage_traits::welcomes::WelcomeStorage;
use mdk_storage_traits::welcomes::types::{ProcessedWelcomeState, WelcomeState};
use mdk_storage_traits::{GroupId, MdkStorageProvider};
use nostr::base64::Engine;
use nostr::base64::engine::general_purpose::STANDARD as BASE64;
use nostr::{Event, EventBuilder, EventId, Kind, PublicKey, RelayUrl, Tag, TagKind, TagStandard, Tags, UnsignedEvent};
use openmls::prelude::{CredentialWithKey, MlsGroup, MlsGroupCreateConfig};
use openmls_basic_credential::SignatureKeyPair;
use tls_codec::Serialize as _;
use openmls_traits::OpenMlsProvider;

use crate::world::{Mdk, World};

macro_rules! with_mdk {
    ($m:expr, |$s:ident| $e:expr) => {
        match $m {
            Mdk::Mem($s) => $e,
            Mdk::Sql($s) => $e,
        }
    };
}

fn u(s: &str) -> u64 {
    s.parse().unwrap_or_else(|_| panic!("nat expected: {s}"))
}
fn relay(i: u64) -> RelayUrl {
    RelayUrl::parse(&format!("wss://relay{i}.example.com")).unwrap()
}
fn relay_num(r: &RelayUrl) -> u64 {
    r.as_str().strip_prefix("wss://relay").and_then(|x| x.split('.').next()).and_then(|n| n.parse().ok()).unwrap_or(999)
}
fn err_kind(e: &mdk_core::Error) -> String {
    let d = format!("{e:?}");
    let v: String = d.chars().take_while(|c| c.is_alphanumeric()).collect();
    format!("err:{v}")
}
fn wrapper_id(w: usize, salt: u64) -> EventId {
    let mut idb = [0u8; 32];
    idb[0] = 0xEE;
    idb[16..24].copy_from_slice(&(w as u64).to_be_bytes());
    idb[24..].copy_from_slice(&salt.to_be_bytes());
    EventId::from_slice(&idb).unwrap()
}
fn wrapper_name(id: &EventId) -> String {
    let b = id.as_bytes();
    if b[0] != 0xEE {
        return "?".into();
    }
    format!("{}.{}", u64::from_be_bytes(b[16..24].try_into().unwrap()), u64::from_be_bytes(b[24..].try_into().unwrap()))
}

struct WMeta {
    rumor: UnsignedEvent,
}

pub struct Inv {
    w: World,
    groups: Vec<GroupId>,
    welcomes: Vec<WMeta>,
    used_wrappers: Vec<(usize, usize, u64)>, // (client, w, salt)
    /// the `Welcome` value the FIRST successful process_welcome of (client, w) returned: what an application
    /// that keeps the value (every UniFFI caller does) later passes to accept / decline (`held`)
    held: HashMap<(usize, usize), mdk_storage_traits::welcomes::types::Welcome>,
    rumor_ids: HashMap<EventId, usize>,
    msg_seq: u64,
    /// C03: every application message ever sent: (content token, event index)
    sent: Vec<(u64, usize)>,
    /// nostr group ids in order of first occurrence
    nids: Vec<[u8; 32]>,
    /// g -> the nostr group id its last committer stored after its last operation
    head_nid: HashMap<usize, [u8; 32]>,
}

impl Inv {
    fn new(backend: &str, n: usize) -> Self {
        let mut w = World::new();
        for i in 0..n {
            let be = if i == 1 { backend } else { "mem" };
            w.exec(&["client", &i.to_string(), be, "5"]);
        }
        for i in 0..n {
            w.exec(&["kp", &i.to_string()]);
            w.exec(&["kp", &i.to_string()]);
        }
        Inv { w, groups: vec![], welcomes: vec![], used_wrappers: vec![], held: HashMap::new(), rumor_ids: HashMap::new(), msg_seq: 0, sent: vec![], nids: vec![], head_nid: HashMap::new() }
    }

    fn gnum(&mut self, g: &GroupId) -> usize {
        if let Some(p) = self.groups.iter().position(|x| x == g) {
            return p;
        }
        self.groups.push(g.clone());
        self.groups.len() - 1
    }

    fn rnum(&mut self, id: &EventId) -> usize {
        let n = self.rumor_ids.len();
        *self.rumor_ids.entry(*id).or_insert(n)
    }

    fn nnum(&mut self, id: &[u8; 32]) -> usize {
        if let Some(p) = self.nids.iter().position(|x| x == id) {
            return p;
        }
        self.nids.push(*id);
        self.nids.len() - 1
    }

    /// the nostr group id client i has stored for group g, remembered as the group's id in force; ` nid=<n>`
    fn note_nid(&mut self, i: usize, g: usize) -> String {
        let gid = self.groups[g].clone();
        let id = self.with(i, |_, mdk| with_mdk!(mdk, |m| m.get_group(&gid).ok().flatten().map(|r| r.nostr_group_id)));
        match id {
            Some(id) => {
                self.head_nid.insert(g, id);
                format!(" nid={}", self.nnum(&id))
            }
            None => String::new(),
        }
    }

    fn token(&mut self, auth: Vec<u8>) -> usize {
        let n = self.w.tokens.len();
        *self.w.tokens.entry(auth).or_insert(n)
    }

    fn with<T>(&mut self, i: usize, f: impl FnOnce(&mut Inv, &Mdk) -> T) -> T {
        let mdk = self.w.clients[i].mdk.take().unwrap();
        let r = f(self, &mdk);
        self.w.clients[i].mdk = Some(mdk);
        r
    }

    /// the MLS side of client i for group g: (epoch, token, members)
    fn mls_view(&mut self, i: usize, g: usize) -> Option<(u64, usize, usize)> {
        let gid = self.groups[g].clone();
        self.with(i, |me, mdk| {
            with_mdk!(mdk, |m| match m.load_mls_group(&gid) {
                Ok(Some(grp)) => {
                    let t = me.token(grp.epoch_authenticator().as_slice().to_vec());
                    Some((grp.epoch().as_u64(), t, grp.members().count()))
                }
                _ => None,
            })
        })
    }

    /// indices of the clients that are members of g in client i's MLS state
    fn members_in(&mut self, i: usize, g: usize) -> String {
        let gid = self.groups[g].clone();
        let pks: Vec<PublicKey> = self.w.clients.iter().map(|c| c.keys.public_key()).collect();
        let v: BTreeSet<usize> = self.with(i, |_, mdk| with_mdk!(mdk, |m| m.get_members(&gid).map(|s| s.iter().filter_map(|p| pks.iter().position(|x| x == p)).collect()).unwrap_or_default()));
        format!("in=[{}]", v.iter().map(|x| x.to_string()).collect::<Vec<_>>().join(","))
    }

    fn push_welcome(&mut self, rumor: UnsignedEvent) -> usize {
        if let Some(id) = rumor.id {
            self.rnum(&id);
        }
        self.welcomes.push(WMeta { rumor });
        self.welcomes.len() - 1
    }

    fn variant(&mut self, w: usize, v: &str) -> Option<UnsignedEvent> {
        let mut r = self.welcomes[w].rumor.clone();
        match v {
            "ok" => {}
            "noid" => r.id = None,
            "badkind" => {
                r.kind = Kind::Custom(9);
                r.id = None;
                r.ensure_id();
            }
            "fewtags" => {
                r.tags = Tags::new();
                r.id = None;
                r.ensure_id();
            }
            "noenc" => {
                let kept: Vec<_> = r.tags.iter().filter(|t| t.as_slice().first().map(|s| s.as_str()) != Some("encoding")).cloned().collect();
                r.tags = Tags::from_list(kept);
                r.id = None;
                r.ensure_id();
            }
            "badb64" => {
                r.content = format!("!!! not base64 {w} !!!");
                r.id = None;
                r.ensure_id();
            }
            "garbage" => {
                r.content = BASE64.encode(format!("these bytes are not an MLS message {w}").as_bytes());
                r.id = None;
                r.ensure_id();
            }
            _ => return None,
        }
        if let Some(id) = r.id {
            self.rnum(&id);
        }
        Some(r)
    }

    fn view(&mut self, j: usize) -> String {
        let groups = self.groups.clone();
        let nw = self.welcomes.len();
        let rumor_ids: Vec<Option<EventId>> = self.welcomes.iter().map(|w| w.rumor.id).collect();
        let used: Vec<(usize, u64)> = self.used_wrappers.iter().filter(|(c, _, _)| *c == j).map(|(_, w, s)| (*w, *s)).collect();
        let pks: Vec<PublicKey> = self.w.clients.iter().map(|c| c.keys.public_key()).collect();
        self.with(j, |me, mdk| {
            with_mdk!(mdk, |m| {
                let mut parts = vec![];
                for (g, gid) in groups.iter().enumerate() {
                    let rec = m.get_group(gid).ok().flatten();
                    let mls = match m.load_mls_group(gid) {
                        Ok(Some(grp)) => {
                            let t = me.token(grp.epoch_authenticator().as_slice().to_vec());
                            format!("T{}:ME{}:MM{}", t, grp.epoch().as_u64(), grp.members().count())
                        }
                        _ => "T-:ME-:MM-".into(),
                    };
                    match rec {
                        None => {
                            if mls != "T-:ME-:MM-" {
                                parts.push(format!("G{g}:norecord:{mls}"));
                            }
                        }
                        Some(r) => {
                            let st = match r.state {
                                GroupState::Active => "a",
                                GroupState::Inactive => "i",
                                GroupState::Pending => "p",
                            };
                            let su = match r.self_update_state {
                                SelfUpdateState::Required => "r",
                                SelfUpdateState::CompletedAt(_) => "c",
                            };
                            let admins: BTreeSet<String> =
                                r.admin_pubkeys.iter().map(|p| pks.iter().position(|x| x == p).map(|i| i.to_string()).unwrap_or("x".into())).collect();
                            let relays: BTreeSet<u64> = m.get_relays(gid).map(|s| s.iter().map(relay_num).collect()).unwrap_or_default();
                            let nmsgs = m.get_messages(gid, None).map(|l| l.len() as i64).unwrap_or(-1);
                            let nid = me.nnum(&r.nostr_group_id);
                            // routing: the record the store answers for this nostr group id
                            let routed = match m.provider.storage().find_group_by_nostr_group_id(&r.nostr_group_id) {
                                Ok(Some(x)) if x.mls_group_id == *gid => "",
                                Ok(Some(_)) => "!other",
                                Ok(None) => "!none",
                                Err(_) => "!err",
                            };
                            parts.push(format!(
                                "G{g}:{st}:E{}:{mls}:SU{su}:N{}:D{}:A{}:R[{}]:L{}:X{nmsgs}:I{nid}{routed}",
                                r.epoch,
                                r.name.len(),
                                r.description.len(),
                                admins.len(),
                                relays.iter().map(|x| x.to_string()).collect::<Vec<_>>().join(","),
                                if r.last_message_id.is_some() { "y" } else { "-" },
                            ));
                        }
                    }
                }
                // stored welcomes, by rumor id (original and variant ids alike)
                let mut known: Vec<(usize, EventId)> = me.rumor_ids.iter().map(|(k, v)| (*v, *k)).collect();
                known.sort();
                for (n, id) in &known {
                    if let Ok(Some(sw)) = m.get_welcome(id) {
                        let st = match sw.state {
                            WelcomeState::Pending => "p",
                            WelcomeState::Accepted => "a",
                            WelcomeState::Declined => "d",
                            WelcomeState::Ignored => "g",
                        };
                        let g = groups.iter().position(|x| *x == sw.mls_group_id).map(|x| x.to_string()).unwrap_or("?".into());
                        let wn = me.nnum(&sw.nostr_group_id);
                        parts.push(format!("W{n}:{st}:{}:g{g}:m{}:i{wn}", wrapper_name(&sw.wrapper_event_id), sw.member_count));
                    }
                }
                let _ = (nw, &rumor_ids);
                let storage = m.provider.storage();
                for (w, s) in &used {
                    if let Ok(Some(p)) = storage.find_processed_welcome_by_event_id(&wrapper_id(*w, *s)) {
                        let st = match p.state {
                            ProcessedWelcomeState::Processed => "p",
                            ProcessedWelcomeState::Failed => "f",
                        };
                        let wid = p.welcome_event_id.map(|id| me.rumor_ids.get(&id).map(|n| n.to_string()).unwrap_or("?".into())).unwrap_or("-".into());
                        parts.push(format!("P{w}.{s}:{st}:{wid}"));
                    }
                }
                let mut pend: Vec<usize> = m
                    .get_pending_welcomes(None)
                    .map(|l| l.iter().map(|x| me.rumor_ids.get(&x.id).copied().unwrap_or(99999)).collect())
                    .unwrap_or_else(|_| vec![88888]);
                pend.sort();
                parts.push(format!("PEND[{}]", pend.iter().map(|x| x.to_string()).collect::<Vec<_>>().join(",")));
                parts.join(" ")
            })
        })
    }

    fn push_event(&mut self, e: Event) -> usize {
        self.w.events.push(e);
        self.w.events.len() - 1
    }

    fn exec(&mut self, t: &[&str]) -> String {
        // references to welcomes / groups / events that do not exist (an earlier step failed)
        let bad = match t[0] {
            "process" | "accept" | "decline" => u(t[2]) as usize >= self.welcomes.len(),
            "invite" | "commit" | "rename" | "remove" | "probe" | "send" | "rotate" => u(t[2]) as usize >= self.groups.len(),
            "rotonto" => u(t[2]) as usize >= self.groups.len() || !self.head_nid.contains_key(&(u(t[3]) as usize)),
            "forge" => u(t[2]) as usize >= self.groups.len() || u(t[4]) as usize >= self.groups.len(),
            "deliver" => u(t[2]) as usize >= self.w.events.len(),
            _ => false,
        };
        if bad {
            return "bad-ref".into();
        }
        match t[0] {
            "group" => {
                let i = u(t[1]) as usize;
                let name_len = u(t[2]) as usize;
                let kp_idx: Vec<usize> = if t[3] == "-" { vec![] } else { t[3].split(',').map(|x| u(x) as usize).collect() };
                let kps: Vec<Event> = kp_idx.iter().map(|k| self.w.kps[*k].1.clone()).collect();
                let pk = self.w.clients[i].keys.public_key();
                let cfg = NostrGroupConfigData::new("n".repeat(name_len), "d".repeat(3), None, None, None, vec![relay(1), relay(2)], vec![pk]);
                let r = self.with(i, |_, mdk| with_mdk!(mdk, |m| m.create_group(&pk, kps, cfg)));
                match r {
                    Ok(res) => {
                        let g = self.gnum(&res.group.mls_group_id);
                        let ws: Vec<String> = res.welcome_rumors.into_iter().map(|r| self.push_welcome(r).to_string()).collect();
                        let mv = self.mls_view(i, g);
                        let inn = self.members_in(i, g);
                        let nid = self.note_nid(i, g);
                        format!("ok g={g} w={} {} {inn}{nid}", ws.join(","), mv.map(|(e, t, m)| format!("epoch={e} tok={t} members={m}")).unwrap_or_default())
                    }
                    Err(e) => err_kind(&e),
                }
            }
            "invite" | "commit" | "rename" | "remove" | "rotate" | "rotonto" => {
                let i = u(t[1]) as usize;
                let g = u(t[2]) as usize;
                let gid = self.groups[g].clone();
                let onto: [u8; 32] = if t[0] == "rotonto" { self.head_nid[&(u(t[3]) as usize)] } else { [0u8; 32] };
                let kps: Vec<Event> = if t[0] == "invite" { t[3].split(',').map(|k| self.w.kps[u(k) as usize].1.clone()).collect() } else { vec![] };
                let pks: Vec<PublicKey> = if t[0] == "remove" { t[3].split(',').map(|j| self.w.clients[u(j) as usize].keys.public_key()).collect() } else { vec![] };
                let name = if t[0] == "rename" { "n".repeat(u(t[3]) as usize) } else { String::new() };
                let r = self.with(i, |_, mdk| {
                    with_mdk!(mdk, |m| {
                        let r = match t[0] {
                            "invite" => m.add_members(&gid, &kps),
                            "commit" => m.self_update(&gid),
                            "rename" => m.update_group_data(&gid, NostrGroupDataUpdate::new().name(name)),
                            "rotate" => {
                                let mut b = [0x5Au8; 32];
                                b[24..].copy_from_slice(&u(t[3]).to_be_bytes());
                                m.update_group_data(&gid, NostrGroupDataUpdate::new().nostr_group_id(b))
                            }
                            "rotonto" => m.update_group_data(&gid, NostrGroupDataUpdate::new().nostr_group_id(onto)),
                            _ => m.remove_members(&gid, &pks),
                        };
                        match r {
                            Ok(res) => m.merge_pending_commit(&gid).map(|_| res),
                            Err(e) => Err(e),
                        }
                    })
                });
                match r {
                    Ok(res) => {
                        let ev = self.push_event(res.evolution_event);
                        let ws: Vec<String> = res.welcome_rumors.unwrap_or_default().into_iter().map(|r| self.push_welcome(r).to_string()).collect();
                        let mv = self.mls_view(i, g);
                        let inn = self.members_in(i, g);
                        let nid = self.note_nid(i, g);
                        format!("ok ev={ev} w={} {} {inn}{nid}", if ws.is_empty() { "-".into() } else { ws.join(",") }, mv.map(|(e, t, m)| format!("epoch={e} tok={t} members={m}")).unwrap_or_default())
                    }
                    Err(e) => err_kind(&e),
                }
            }
            "forge" => {
                // forge <i> <g> <kp> <template g'>: client i (a member of its own group g', NOT of g) creates,
                // with OpenMLS directly, a NEW MLS group that carries the MLS group id of g and the group data
                // of g', adds the owner of key package kp and produces the welcome rumor
                let i = u(t[1]) as usize;
                let gid = self.groups[u(t[2]) as usize].clone();
                let tmpl = self.groups[u(t[4]) as usize].clone();
                let kp_ev = self.w.kps[u(t[3]) as usize].1.clone();
                let pk = self.w.clients[i].keys.public_key();
                let r: Result<(UnsignedEvent, Vec<u8>, u64, usize), String> = self.with(i, |_, mdk| {
                    with_mdk!(mdk, |m| {
                        (|| -> Result<(UnsignedEvent, Vec<u8>, u64, usize), String> {
                            let t = m.load_mls_group(&tmpl).map_err(|e| format!("{e:?}"))?.ok_or("no template group")?;
                            let leaf = t.own_leaf().ok_or("no own leaf")?.clone();
                            let signer = SignatureKeyPair::read(m.provider.storage(), leaf.signature_key().as_slice(), t.ciphersuite().signature_algorithm())
                                .ok_or("no signer")?;
                            let cfg = MlsGroupCreateConfig::builder()
                                .ciphersuite(t.ciphersuite())
                                .use_ratchet_tree_extension(true)
                                .capabilities(leaf.capabilities().clone())
                                .with_group_context_extensions(t.extensions().clone())
                                .build();
                            let kp = m.parse_key_package(&kp_ev).map_err(|e| format!("{e:?}"))?;
                            let mut g = MlsGroup::new_with_group_id(&m.provider, &signer, &cfg, gid.inner().clone(), CredentialWithKey { credential: leaf.credential().clone(), signature_key: leaf.signature_key().clone() })
                                .map_err(|e| format!("{e:?}"))?;
                            let (_, welcome_out, _) = g.add_members(&m.provider, &signer, &[kp]).map_err(|e| format!("{e:?}"))?;
                            g.merge_pending_commit(&m.provider).map_err(|e| format!("{e:?}"))?;
                            let bytes = welcome_out.tls_serialize_detached().map_err(|e| format!("{e:?}"))?;
                            let tags = vec![
                                Tag::from_standardized(TagStandard::Relays(vec![relay(1), relay(2)])),
                                Tag::event(kp_ev.id),
                                Tag::custom(TagKind::Custom("encoding".into()), ["base64"]),
                            ];
                            let mut rumor = EventBuilder::new(Kind::MlsWelcome, BASE64.encode(bytes)).tags(tags).build(pk);
                            rumor.ensure_id();
                            Ok((rumor, g.epoch_authenticator().as_slice().to_vec(), g.epoch().as_u64(), g.members().count()))
                        })()
                    })
                });
                match r {
                    Err(e) => format!("err:{}", e.chars().filter(|c| c.is_alphanumeric()).take(40).collect::<String>()),
                    Ok((rumor, auth, epoch, members)) => {
                        let w = self.push_welcome(rumor);
                        let tok = self.token(auth);
                        let nid = self.note_nid(i, u(t[4]) as usize);
                        format!("ok w={w} epoch={epoch} tok={tok} members={members}{nid}")
                    }
                }
            }
            "process" => {
                let j = u(t[1]) as usize;
                let w = u(t[2]) as usize;
                let salt = u(t[3]);
                let Some(rumor) = self.variant(w, t[4]) else { return "bad-op".into() };
                let wrapper = wrapper_id(w, salt);
                if !self.used_wrappers.contains(&(j, w, salt)) {
                    self.used_wrappers.push((j, w, salt));
                }
                let r = self.with(j, |_, mdk| with_mdk!(mdk, |m| m.process_welcome(&wrapper, &rumor)));
                match r {
                    Ok(sw) => {
                        self.held.entry((j, w)).or_insert_with(|| sw.clone());
                        let g = self.gnum(&sw.mls_group_id);
                        let n = self.rnum(&sw.id);
                        let st = match sw.state {
                            WelcomeState::Pending => "p",
                            WelcomeState::Accepted => "a",
                            WelcomeState::Declined => "d",
                            WelcomeState::Ignored => "g",
                        };
                        format!("ok W{n}:{st}:{}:g{g}", wrapper_name(&sw.wrapper_event_id))
                    }
                    Err(e) => err_kind(&e),
                }
            }
            "accept" | "decline" => {
                let j = u(t[1]) as usize;
                let w = u(t[2]) as usize;
                let id = self.welcomes[w].rumor.id;
                // `held`: the caller passes the value it kept from process_welcome (state as returned then),
                // not a fresh read of the stored welcome
                let held = if t.len() > 3 && t[3] == "held" { Some(self.held.get(&(j, w)).cloned()) } else { None };
                let r: Result<(), mdk_core::Error> = self.with(j, |_, mdk| {
                    with_mdk!(mdk, |m| match held.clone().unwrap_or_else(|| id.and_then(|id| m.get_welcome(&id).ok().flatten())) {
                        None => Err(mdk_core::Error::Welcome("no stored welcome".into())),
                        Some(sw) => {
                            if t[0] == "accept" { m.accept_welcome(&sw) } else { m.decline_welcome(&sw) }
                        }
                    })
                });
                match r {
                    Ok(()) => "ok".into(),
                    Err(mdk_core::Error::Welcome(s)) if s == "no stored welcome" => "nostored".into(),
                    Err(e) => err_kind(&e),
                }
            }
            "deliver" => {
                let j = u(t[1]) as usize;
                let ev = self.w.events[u(t[2]) as usize].clone();
                self.with(j, |_, mdk| with_mdk!(mdk, |m| result_kind(m.process_message(&ev))))
            }
            "probe" => {
                let j = u(t[1]) as usize;
                let g = u(t[2]) as usize;
                let i = u(t[3]) as usize;
                let gid = self.groups[g].clone();
                let pk = self.w.clients[i].keys.public_key();
                self.msg_seq += 1;
                let mut rumor = EventBuilder::new(Kind::Custom(9), format!("probe{}", self.msg_seq)).build(pk);
                rumor.ensure_id();
                let ev = self.with(i, |_, mdk| with_mdk!(mdk, |m| m.create_message(&gid, rumor)));
                match ev {
                    Err(e) => format!("sender-{}", err_kind(&e)),
                    Ok(ev) => {
                        let n = self.push_event(ev.clone());
                        self.sent.push((self.msg_seq, n));
                        self.with(j, |_, mdk| with_mdk!(mdk, |m| result_kind(m.process_message(&ev))))
                    }
                }
            }
            "send" => {
                // send <i> <g>: an application message by client i; prints the members of the sender's state
                let i = u(t[1]) as usize;
                let g = u(t[2]) as usize;
                let gid = self.groups[g].clone();
                let pk = self.w.clients[i].keys.public_key();
                self.msg_seq += 1;
                let seq = self.msg_seq;
                let mut rumor = EventBuilder::new(Kind::Custom(9), format!("probe{seq}")).build(pk);
                rumor.ensure_id();
                let pks: Vec<PublicKey> = self.w.clients.iter().map(|c| c.keys.public_key()).collect();
                let r = self.with(i, |_, mdk| {
                    with_mdk!(mdk, |m| {
                        m.create_message(&gid, rumor).map(|ev| {
                            let members: BTreeSet<usize> = m.get_members(&gid).map(|s| s.iter().filter_map(|p| pks.iter().position(|x| x == p)).collect()).unwrap_or_default();
                            (ev, members)
                        })
                    })
                });
                match r {
                    Err(e) => err_kind(&e),
                    Ok((ev, members)) => {
                        let n = self.push_event(ev);
                        self.sent.push((seq, n));
                        let mv = self.mls_view(i, g);
                        format!(
                            "ok ev={n} mid={seq} {} in=[{}]",
                            mv.map(|(e, t, _)| format!("epoch={e} tok={t}")).unwrap_or_default(),
                            members.iter().map(|x| x.to_string()).collect::<Vec<_>>().join(",")
                        )
                    }
                }
            }
            "flood" => {
                // flood <j> <seed> <rounds>: client j is fed EVERY wrapper event and EVERY welcome rumor ever
                // published, in a seeded random order, `rounds` times (welcomes are processed, never accepted)
                let j = u(t[1]) as usize;
                let mut x = u(t[2]).wrapping_mul(0x9E37_79B9_7F4A_7C15) | 1;
                let rounds = u(t[3]);
                let mut counts: BTreeSet<String> = BTreeSet::new();
                let (mut napp, mut ncommit, mut nwel, mut total) = (0, 0, 0, 0);
                let mut seq: Vec<String> = Vec::new();
                for round in 0..rounds {
                    let mut items: Vec<(bool, usize)> = (0..self.w.events.len()).map(|e| (true, e)).chain((0..self.welcomes.len()).map(|w| (false, w))).collect();
                    for k in (1..items.len()).rev() {
                        x ^= x << 13;
                        x ^= x >> 7;
                        x ^= x << 17;
                        items.swap(k, (x % (k as u64 + 1)) as usize);
                    }
                    for (is_ev, n) in items {
                        total += 1;
                        seq.push(format!("{}{n}", if is_ev { "e" } else { "w" }));
                        if is_ev {
                            let ev = self.w.events[n].clone();
                            let r = self.with(j, |_, mdk| with_mdk!(mdk, |m| result_kind(m.process_message(&ev))));
                            if r == "app" {
                                napp += 1
                            } else if r == "commit" {
                                ncommit += 1
                            }
                            counts.insert(r);
                        } else {
                            let rumor = self.welcomes[n].rumor.clone();
                            let wrapper = wrapper_id(n, 900 + round);
                            if !self.used_wrappers.contains(&(j, n, 900 + round)) {
                                self.used_wrappers.push((j, n, 900 + round));
                            }
                            let ok = self.with(j, |_, mdk| with_mdk!(mdk, |m| m.process_welcome(&wrapper, &rumor).is_ok()));
                            if ok {
                                nwel += 1;
                                if let Some(id) = rumor.id {
                                    if let Some(g) = self.with(j, |_, mdk| with_mdk!(mdk, |m| m.get_welcome(&id).ok().flatten().map(|w| w.mls_group_id))) {
                                        self.gnum(&g);
                                    }
                                }
                            }
                        }
                    }
                }
                format!("ok fed={total} app={napp} commit={ncommit} welcomes={nwel} kinds={} seq={}", counts.into_iter().collect::<Vec<_>>().join("+"), if seq.is_empty() { "-".into() } else { seq.join(",") })
            }
            "audit" => {
                // audit <j>: the content tokens of every message row client j holds, per group
                let j = u(t[1]) as usize;
                let groups = self.groups.clone();
                let parts: Vec<String> = self.with(j, |_, mdk| {
                    with_mdk!(mdk, |m| {
                        groups
                            .iter()
                            .enumerate()
                            .filter_map(|(g, gid)| {
                                let l = m.get_messages(gid, None).ok()?;
                                let mut toks: Vec<u64> = l.iter().filter_map(|x| x.content.strip_prefix("probe").and_then(|n| n.parse().ok())).collect();
                                toks.sort();
                                let other = l.len() - toks.len();
                                Some(format!("M{g}:[{}]{}", toks.iter().map(|x| x.to_string()).collect::<Vec<_>>().join(","), if other > 0 { format!("+{other}") } else { String::new() }))
                            })
                            .collect()
                    })
                });
                format!("ok {}", if parts.is_empty() { "-".into() } else { parts.join(" ") })
            }
            "view" => "ok".into(),
            _ => "bad-op".into(),
        }
    }
}

fn result_kind(r: Result<MessageProcessingResult, mdk_core::Error>) -> String {
    match r {
        Ok(MessageProcessingResult::ApplicationMessage(_)) => "app".into(),
        Ok(MessageProcessingResult::Proposal(_)) => "proposal-committed".into(),
        Ok(MessageProcessingResult::PendingProposal { .. }) => "pending".into(),
        Ok(MessageProcessingResult::IgnoredProposal { .. }) => "ignored".into(),
        Ok(MessageProcessingResult::ExternalJoinProposal { .. }) => "external".into(),
        Ok(MessageProcessingResult::Commit { .. }) => "commit".into(),
        Ok(MessageProcessingResult::Unprocessable { .. }) => "unprocessable".into(),
        Ok(MessageProcessingResult::PreviouslyFailed) => "previously_failed".into(),
        Err(e) => err_kind(&e),
    }
}

#[allow(dead_code)]
fn _unused<S: MdkStorageProvider>(_m: &MDK<S>) {}

pub fn main(_args: &[String]) -> i32 {
    std::panic::set_hook(Box::new(|_| {}));
    let stdin = io::stdin();
    let out = io::stdout();
    let mut out = out.lock();
    let mut inv: Option<Inv> = None;
    for line in stdin.lock().lines() {
        let Ok(line) = line else { break };
        let t: Vec<&str> = line.split_whitespace().collect();
        if t.is_empty() || t[0].starts_with('#') {
            continue;
        }
        if t[0] == "setup" {
            inv = Some(Inv::new(t.get(1).copied().unwrap_or("mem"), t.get(2).and_then(|x| x.parse().ok()).unwrap_or(4)));
            writeln!(out, "ok | -").unwrap();
            out.flush().unwrap();
            continue;
        }
        let Some(iv) = inv.as_mut() else {
            writeln!(out, "bad-op | -").unwrap();
            continue;
        };
        let res = catch_unwind(AssertUnwindSafe(|| iv.exec(&t))).unwrap_or_else(|_| "panic".into());
        let who = if t.len() > 1 { t[1].parse::<usize>().ok() } else { None };
        let view = match who {
            Some(j) if j < iv.w.clients.len() && iv.w.clients[j].mdk.is_some() => catch_unwind(AssertUnwindSafe(|| iv.view(j))).unwrap_or_else(|_| "view-panic".into()),
            _ => "-".into(),
        };
        writeln!(out, "{res} | {view}").unwrap();
        out.flush().unwrap();
    }
    0
}
