//! `world` engine: several real `MDK` instances (memory / SQLite), a pool of wrapper events, explicit
//! deliveries.  Interactive line protocol: one command per line on stdin, one canonical observation
//! per line on stdout (`<result> | <fingerprint of the acting client>`).  Everything that is
//! inherently nondeterministic (event ids, authenticators, rumor ids) is mapped to small numbers by
//! first occurrence; the order-relevant 64-bit prefix of wrapper ids is printed as `idnum`.

use std::collections::{BTreeSet, HashMap};
use std::io::{self, BufRead, Write};
use std::panic::{AssertUnwindSafe, catch_unwind};
use std::path::PathBuf;

use mdk_core::groups::{NostrGroupConfigData, NostrGroupDataUpdate};
use mdk_core::messages::MessageProcessingResult;
use mdk_core::{MDK, MdkConfig};
use mdk_memory_storage::MdkMemoryStorage;
use mdk_sqlite_storage::MdkSqliteStorage;
use mdk_storage_traits::groups::Pagination;
use mdk_storage_traits::groups::types::GroupState;
use mdk_storage_traits::messages::types::{MessageState, ProcessedMessageState};
use mdk_storage_traits::{GroupId, MdkStorageProvider};
use nostr::{Event, EventBuilder, EventId, Keys, Kind, PublicKey, RelayUrl, Tag, TagKind, Timestamp, UnsignedEvent};
use openmls_traits::OpenMlsProvider;

use crate::store::scratch_dir;

pub enum Mdk {
    Mem(MDK<MdkMemoryStorage>),
    Sql(MDK<MdkSqliteStorage>),
}

macro_rules! with_mdk {
    ($m:expr, |$s:ident| $e:expr) => {
        match $m {
            Mdk::Mem($s) => $e,
            Mdk::Sql($s) => $e,
        }
    };
}

pub struct Client {
    pub keys: Keys,
    pub mdk: Option<Mdk>,
    pub sql_path: Option<PathBuf>,
    pub _dir: Option<tempfile::TempDir>,
    pub cfg: MdkConfig,
    pub gid: Option<GroupId>,
}

pub struct World {
    pub clients: Vec<Client>,
    pub events: Vec<Event>,
    pub kps: Vec<(usize, Event)>,
    pub welcomes: Vec<(usize, UnsignedEvent)>,
    pub t0: u64,
    pub tokens: HashMap<Vec<u8>, usize>,
    pub rumor_ids: HashMap<EventId, usize>,
    pub nids: HashMap<[u8; 32], usize>,
    pub gids: HashMap<Vec<u8>, usize>,
    /// C05 identity probe: crafted stand-alone Update proposals by event number (what a modified client keeps after decrypting)
    pub qprops: HashMap<usize, (openmls::prelude::QueuedProposal, openmls::ciphersuite::hash_ref::ProposalRef)>,
}

fn u(s: &str) -> u64 {
    s.parse().unwrap_or_else(|_| panic!("nat expected: {s}"))
}

fn relay(i: u64) -> RelayUrl {
    RelayUrl::parse(&format!("wss://relay{i}.example.com")).unwrap()
}
fn relay_num(r: &RelayUrl) -> u64 {
    r.as_str().strip_prefix("wss://relay").and_then(|x| x.split('.').next()).and_then(|n| n.parse().ok()).unwrap_or(999)
}
fn tok_of(s: &str, prefix: &str) -> String {
    s.strip_prefix(prefix).map(|x| x.to_string()).unwrap_or_else(|| format!("?{}", s.len()))
}

fn err_kind(e: &mdk_core::Error) -> String {
    // error KIND only (variant name), never the wording
    let d = format!("{e:?}");
    let v: String = d.chars().take_while(|c| c.is_alphanumeric()).collect();
    format!("err:{v}")
}

impl World {
    pub fn new() -> Self {
        World {
            clients: vec![],
            events: vec![],
            kps: vec![],
            welcomes: vec![],
            t0: Timestamp::now().as_secs() - 5000,
            tokens: HashMap::new(),
            rumor_ids: HashMap::new(),
            nids: HashMap::new(),
            gids: HashMap::new(),
            qprops: HashMap::new(),
        }
    }

    fn who(&self, pk: &PublicKey) -> String {
        self.clients.iter().position(|c| c.keys.public_key() == *pk).map(|i| i.to_string()).unwrap_or_else(|| "x".into())
    }

    fn ev_num(&self, id: &EventId) -> String {
        self.events.iter().position(|e| e.id == *id).map(|i| i.to_string()).unwrap_or_else(|| "x".into())
    }

    fn rumor_num(&mut self, id: EventId) -> usize {
        let n = self.rumor_ids.len();
        *self.rumor_ids.entry(id).or_insert(n)
    }

    fn push_event(&mut self, e: Event) -> String {
        let idnum = u64::from_be_bytes(e.id.as_bytes()[..8].try_into().unwrap());
        let ts = e.created_at.as_secs() as i64 - self.t0 as i64;
        self.events.push(e);
        format!("ev={} idnum={} ts={}", self.events.len() - 1, idnum, ts)
    }

    fn set_ts(&self, off: &str) {
        if off == "-" {
            mdk_core::verif_hooks::set_wrapper_created_at(0);
        } else {
            mdk_core::verif_hooks::set_wrapper_created_at(self.t0 + u(off));
        }
    }

    pub fn open_mdk(&self, backend: &str, path: &Option<PathBuf>, cfg: &MdkConfig) -> Mdk {
        if backend == "sql" {
            let s = MdkSqliteStorage::new_unencrypted(path.as_ref().unwrap()).expect("open sqlite");
            Mdk::Sql(MDK::builder(s).with_config(cfg.clone()).build())
        } else {
            Mdk::Mem(MDK::builder(MdkMemoryStorage::default()).with_config(cfg.clone()).build())
        }
    }

    pub fn fingerprint(&mut self, ci: usize) -> String {
        let gid = match self.clients[ci].gid.clone() {
            Some(g) => g,
            None => return "nogroup".into(),
        };
        let mdk = self.clients[ci].mdk.take().unwrap();
        let fp = with_mdk!(&mdk, |m| self.fingerprint_of(m, &gid));
        self.clients[ci].mdk = Some(mdk);
        fp
    }

    pub fn fingerprint_of<S: MdkStorageProvider>(&mut self, m: &MDK<S>, gid: &GroupId) -> String {
        let group = match m.get_group(gid) {
            Ok(Some(g)) => g,
            _ => return "norecord".into(),
        };
        let (mls_epoch, token, members, mls_data, queued, pendc) = match m.load_mls_group(gid) {
            Ok(Some(g)) => {
                let auth = g.epoch_authenticator().as_slice().to_vec();
                let n = self.tokens.len();
                let t = *self.tokens.entry(auth).or_insert(n);
                let mem: BTreeSet<String> = m.get_members(gid).map(|s| s.iter().map(|p| self.who(p)).collect()).unwrap_or_default();
                let data = mdk_core::extension::NostrGroupDataExtension::from_group(&g).ok();
                (g.epoch().as_u64() as i64, t as i64, mem, data, g.pending_proposals().count(), g.pending_commit().is_some() as u8)
            }
            _ => (-1, -1, BTreeSet::new(), None, 0, 0),
        };
        let admins: BTreeSet<String> = group.admin_pubkeys.iter().map(|p| self.who(p)).collect();
        let relays: BTreeSet<u64> = m.get_relays(gid).map(|s| s.iter().map(relay_num).collect()).unwrap_or_default();
        let nn = self.nids.len();
        let nid = *self.nids.entry(group.nostr_group_id).or_insert(nn);
        let st = match group.state {
            GroupState::Active => "a",
            GroupState::Inactive => "i",
            GroupState::Pending => "p",
        };
        let pa: BTreeSet<String> = m.pending_added_members_pubkeys(gid).map(|v| v.iter().map(|p| self.who(p)).collect()).unwrap_or_default();
        let pr: BTreeSet<String> = m.pending_removed_members_pubkeys(gid).map(|v| v.iter().map(|p| self.who(p)).collect()).unwrap_or_default();
        let last = match (group.last_message_id, group.last_message_at) {
            (Some(id), Some(at)) => format!("{}@{}", self.rumor_num(id), at.as_secs() as i64 - self.t0 as i64),
            (None, None) => "-".into(),
            _ => "?".into(),
        };
        let msgs = match m.get_messages(gid, Some(Pagination::new(Some(10000), Some(0)))) {
            Ok(l) => l
                .iter()
                .map(|x| {
                    let st = match x.state {
                        MessageState::Created => "c",
                        MessageState::Processed => "p",
                        MessageState::Deleted => "d",
                        MessageState::EpochInvalidated => "x",
                    };
                    let idok = if x.event.id == Some(x.id) && { let mut e = x.event.clone(); e.id = None; e.id() == x.id } { "" } else { "!" };
                    format!(
                        "{}{}:{}:{}:{}:{}:{}",
                        self.rumor_num(x.id),
                        idok,
                        self.who(&x.pubkey),
                        st,
                        x.epoch.map(|e| e.to_string()).unwrap_or("-".into()),
                        self.ev_num(&x.wrapper_event_id),
                        tok_of(&x.content, "msg")
                    )
                })
                .collect::<Vec<_>>()
                .join(","),
            Err(_) => "err".into(),
        };
        let storage = m.provider.storage();
        let mut recs = vec![];
        for (i, e) in self.events.iter().enumerate() {
            if let Ok(Some(r)) = storage.find_processed_message_by_event_id(&e.id) {
                let st = match r.state {
                    ProcessedMessageState::Created => "c",
                    ProcessedMessageState::Processed => "p",
                    ProcessedMessageState::ProcessedCommit => "k",
                    ProcessedMessageState::Failed => "f",
                    ProcessedMessageState::EpochInvalidated => "x",
                    ProcessedMessageState::Retryable => "r",
                };
                recs.push(format!("{}:{}:{}", i, st, r.epoch.map(|e| e.to_string()).unwrap_or("-".into())));
            }
        }
        let snaps = storage.list_group_snapshots(gid).map(|l| l.len()).unwrap_or(999);
        // C08: every field `sync_group_metadata_from_mls` copies, compared with the MLS state's own extension
        let stored_relays: BTreeSet<RelayUrl> = m.get_relays(gid).unwrap_or_default();
        let rec_sync = match &mls_data {
            Some(d) if group.epoch as i64 == mls_epoch
                && group.name == d.name
                && group.description == d.description
                && group.admin_pubkeys == d.admins
                && group.nostr_group_id == d.nostr_group_id
                && stored_relays == d.relays
                && group.image_hash == d.image_hash => "",
            _ => "!sync",
        };
        format!(
            "E{} T{} M[{}] A[{}] N{} D{} I{} R[{}] S{} PA[{}] PR[{}] L{} X[{}] K[{}] Z{}{} Q{} C{}",
            group.epoch,
            token,
            members.into_iter().collect::<Vec<_>>().join(","),
            admins.into_iter().collect::<Vec<_>>().join(","),
            tok_of(&group.name, "name"),
            tok_of(&group.description, "desc"),
            nid,
            relays.iter().map(|r| r.to_string()).collect::<Vec<_>>().join(","),
            st,
            pa.into_iter().collect::<Vec<_>>().join(","),
            pr.into_iter().collect::<Vec<_>>().join(","),
            last,
            msgs,
            recs.join(","),
            snaps,
            rec_sync,
            queued,
            pendc
        )
    }

    fn result_str<S: MdkStorageProvider>(&mut self, _m: &MDK<S>, r: Result<MessageProcessingResult, mdk_core::Error>) -> (String, Option<Event>) {
        match r {
            Ok(MessageProcessingResult::ApplicationMessage(msg)) => (format!("app:{}", self.rumor_num(msg.id)), None),
            Ok(MessageProcessingResult::Proposal(upd)) => ("proposal-committed".into(), Some(upd.evolution_event)),
            Ok(MessageProcessingResult::PendingProposal { .. }) => ("pending".into(), None),
            Ok(MessageProcessingResult::IgnoredProposal { .. }) => ("ignored".into(), None),
            Ok(MessageProcessingResult::ExternalJoinProposal { .. }) => ("external".into(), None),
            Ok(MessageProcessingResult::Commit { .. }) => ("commit".into(), None),
            Ok(MessageProcessingResult::Unprocessable { .. }) => ("unprocessable".into(), None),
            Ok(MessageProcessingResult::PreviouslyFailed) => ("previously_failed".into(), None),
            Err(e) => (err_kind(&e), None),
        }
    }

    pub fn exec(&mut self, t: &[&str]) -> String {
        match t[0] {
            "client" => {
                // client <i> <mem|sql> <retention> [tolerance forward past_epochs]
                let i = u(t[1]) as usize;
                assert_eq!(i, self.clients.len(), "clients are created in order");
                let mut cfg = MdkConfig::default();
                cfg.epoch_snapshot_retention = u(t[3]) as usize;
                if t.len() > 6 {
                    cfg.out_of_order_tolerance = u(t[4]) as u32;
                    cfg.maximum_forward_distance = u(t[5]) as u32;
                    cfg.max_past_epochs = u(t[6]) as usize;
                }
                let (dir, path) = if t[2] == "sql" {
                    let d = tempfile::Builder::new().prefix("vh-world").tempdir_in(scratch_dir()).unwrap();
                    let p = d.path().join("db.sqlite");
                    (Some(d), Some(p))
                } else {
                    (None, None)
                };
                let mdk = self.open_mdk(t[2], &path, &cfg);
                self.clients.push(Client { keys: Keys::generate(), mdk: Some(mdk), sql_path: path, _dir: dir, cfg, gid: None });
                "ok".into()
            }
            "kp" => {
                let i = u(t[1]) as usize;
                let keys = self.clients[i].keys.clone();
                let mdk = self.clients[i].mdk.take().unwrap();
                let r = with_mdk!(&mdk, |m| m.create_key_package_for_event(&keys.public_key(), vec![relay(1)]));
                self.clients[i].mdk = Some(mdk);
                match r {
                    Ok((content, tags, _)) => {
                        let ev = EventBuilder::new(Kind::MlsKeyPackage, content).tags(tags).sign_with_keys(&keys).unwrap();
                        self.kps.push((i, ev));
                        format!("kp={}", self.kps.len() - 1)
                    }
                    Err(e) => err_kind(&e),
                }
            }
            "create" => {
                // create <i> <admins csv> <nameTok> <nrelays> <kp csv|->
                let i = u(t[1]) as usize;
                let admins: Vec<PublicKey> = t[2].split(',').filter(|x| !x.is_empty() && *x != "-").map(|x| self.clients[u(x) as usize].keys.public_key()).collect();
                let relays: Vec<RelayUrl> = (1..=u(t[4])).map(relay).collect();
                let kp_idx: Vec<usize> = if t[5] == "-" { vec![] } else { t[5].split(',').map(|x| u(x) as usize).collect() };
                let kps: Vec<Event> = kp_idx.iter().map(|k| self.kps[*k].1.clone()).collect();
                let cfg = NostrGroupConfigData::new(format!("name{}", t[3]), "desc0".to_string(), None, None, None, relays, admins);
                let pk = self.clients[i].keys.public_key();
                let mdk = self.clients[i].mdk.take().unwrap();
                let r = with_mdk!(&mdk, |m| m.create_group(&pk, kps, cfg));
                self.clients[i].mdk = Some(mdk);
                match r {
                    Ok(res) => {
                        self.clients[i].gid = Some(res.group.mls_group_id.clone());
                        let n = self.gids.len();
                        self.gids.entry(res.group.mls_group_id.as_slice().to_vec()).or_insert(n);
                        let mut ws = vec![];
                        for (k, rumor) in kp_idx.iter().zip(res.welcome_rumors.into_iter()) {
                            self.welcomes.push((self.kps[*k].0, rumor));
                            ws.push((self.welcomes.len() - 1).to_string());
                        }
                        format!("ok w={}", ws.join(","))
                    }
                    Err(e) => err_kind(&e),
                }
            }
            "welcome" | "accept" | "decline" => {
                // welcome <j> <w> <wrapperSalt>
                let j = u(t[1]) as usize;
                let w = u(t[2]) as usize;
                let rumor = self.welcomes[w].1.clone();
                let salt = if t.len() > 3 { u(t[3]) } else { 0 };
                let mut idb = [0u8; 32];
                idb[0] = 0xEE;
                idb[16..24].copy_from_slice(&(w as u64).to_be_bytes());
                idb[24..].copy_from_slice(&salt.to_be_bytes());
                let wrapper = EventId::from_slice(&idb).unwrap();
                let mdk = self.clients[j].mdk.take().unwrap();
                let r: Result<Option<GroupId>, mdk_core::Error> = with_mdk!(&mdk, |m| {
                    match t[0] {
                        "welcome" => m.process_welcome(&wrapper, &rumor).map(|w| Some(w.mls_group_id)),
                        _ => {
                            // operate on the stored welcome (as an application would)
                            match rumor.id.and_then(|id| m.get_welcome(&id).ok().flatten()) {
                                None => Err(mdk_core::Error::Welcome("no stored welcome".to_string())),
                                Some(sw) => {
                                    let g = sw.mls_group_id.clone();
                                    if t[0] == "accept" { m.accept_welcome(&sw).map(|_| Some(g)) } else { m.decline_welcome(&sw).map(|_| Some(g)) }
                                }
                            }
                        }
                    }
                });
                self.clients[j].mdk = Some(mdk);
                match r {
                    Ok(g) => {
                        if let Some(g) = g {
                            if self.clients[j].gid.is_none() {
                                self.clients[j].gid = Some(g);
                            }
                        }
                        "ok".into()
                    }
                    Err(e) => err_kind(&e),
                }
            }
            "send" => {
                // send <i> <tok> <tsoff|-> [rumor_ts_off]
                let i = u(t[1]) as usize;
                let gid = match self.clients[i].gid.clone() { Some(g) => g, None => return "err:NoGroup".into() };
                let pk = self.clients[i].keys.public_key();
                let rts = if t.len() > 4 { self.t0 + u(t[4]) } else { self.t0 + 100 + u(t[2]) };
                let mut rumor = EventBuilder::new(Kind::Custom(9), format!("msg{}", t[2])).custom_created_at(Timestamp::from(rts)).build(pk);
                rumor.ensure_id();
                let rid = rumor.id.unwrap();
                self.set_ts(t[3]);
                let mdk = self.clients[i].mdk.take().unwrap();
                let r = with_mdk!(&mdk, |m| m.create_message(&gid, rumor));
                self.clients[i].mdk = Some(mdk);
                self.set_ts("-");
                match r {
                    Ok(ev) => {
                        let m = self.rumor_num(rid);
                        format!("{} mid={}", self.push_event(ev), m)
                    }
                    Err(e) => err_kind(&e),
                }
            }
            "selfupdate" | "add" | "remove" | "leave" | "data" => {
                let i = u(t[1]) as usize;
                let gid = match self.clients[i].gid.clone() { Some(g) => g, None => return "err:NoGroup".into() };
                let tsarg = *t.last().unwrap();
                self.set_ts(tsarg);
                let mdk = self.clients[i].mdk.take().unwrap();
                let r = with_mdk!(&mdk, |m| match t[0] {
                    "selfupdate" => m.self_update(&gid),
                    "add" => {
                        let kps: Vec<Event> = t[2].split(',').map(|k| self.kps[u(k) as usize].1.clone()).collect();
                        m.add_members(&gid, &kps)
                    }
                    "remove" => {
                        let pks: Vec<PublicKey> = t[2].split(',').map(|j| self.clients[u(j) as usize].keys.public_key()).collect();
                        m.remove_members(&gid, &pks)
                    }
                    "leave" => m.leave_group(&gid),
                    _ => {
                        // data <i> (<field> <value>)+ <ts>   — one `update_group_data` call with the named fields set
                        let mut upd = NostrGroupDataUpdate::default();
                        let mut k = 2;
                        while k + 2 <= t.len() - 1 {
                            let (f, v) = (t[k], t[k + 1]);
                            match f {
                                "name" => upd.name = Some(format!("name{}", v)),
                                "namelen" => upd.name = Some("n".repeat(u(v) as usize)),
                                "desc" => upd.description = Some(format!("desc{}", v)),
                                "relays" => upd.relays = Some((1..=u(v)).map(relay).collect()),
                                "admins" => upd.admins = Some(v.split(',').filter(|x| !x.is_empty() && *x != "-").map(|j| self.clients[u(j) as usize].keys.public_key()).collect()),
                                "nid" => {
                                    let mut b = [0x5Au8; 32];
                                    b[24..].copy_from_slice(&u(v).to_be_bytes());
                                    upd.nostr_group_id = Some(b)
                                }
                                _ => {}
                            }
                            k += 2;
                        }
                        m.update_group_data(&gid, upd)
                    }
                });
                self.clients[i].mdk = Some(mdk);
                self.set_ts("-");
                match r {
                    Ok(res) => {
                        let mut out = self.push_event(res.evolution_event);
                        if let Some(ws) = res.welcome_rumors {
                            let kp_idx: Vec<usize> = if t[0] == "add" { t[2].split(',').map(|k| u(k) as usize).collect() } else { vec![] };
                            let mut wl = vec![];
                            for (k, rumor) in kp_idx.iter().zip(ws.into_iter()) {
                                self.welcomes.push((self.kps[*k].0, rumor));
                                wl.push((self.welcomes.len() - 1).to_string());
                            }
                            out.push_str(&format!(" w={}", wl.join(",")));
                        }
                        out
                    }
                    Err(e) => err_kind(&e),
                }
            }
            "merge" | "clear" => {
                let i = u(t[1]) as usize;
                let gid = match self.clients[i].gid.clone() { Some(g) => g, None => return "err:NoGroup".into() };
                let mdk = self.clients[i].mdk.take().unwrap();
                let r = with_mdk!(&mdk, |m| if t[0] == "merge" { m.merge_pending_commit(&gid) } else { m.clear_pending_commit(&gid) });
                self.clients[i].mdk = Some(mdk);
                match r {
                    Ok(()) => "ok".into(),
                    Err(e) => err_kind(&e),
                }
            }
            "deliver" => {
                let j = u(t[1]) as usize;
                let ev = self.events[u(t[2]) as usize].clone();
                let mdk = self.clients[j].mdk.take().unwrap();
                let (s, new_ev) = with_mdk!(&mdk, |m| {
                    let r = m.process_message(&ev);
                    self.result_str(m, r)
                });
                self.clients[j].mdk = Some(mdk);
                // a welcome-less client learns its group id only through welcomes; nothing to do here
                match new_ev {
                    Some(e) => format!("{} {}", s, self.push_event(e)),
                    None => s,
                }
            }
            "rewrap" => {
                // rewrap <n> <tsoff>: same ciphertext and h tag, fresh ephemeral key, chosen timestamp
                let e = self.events[u(t[1]) as usize].clone();
                let ne = EventBuilder::new(e.kind, e.content.clone())
                    .tags(e.tags.clone())
                    .custom_created_at(Timestamp::from(self.t0 + u(t[2])))
                    .sign_with_keys(&Keys::generate())
                    .unwrap();
                self.push_event(ne)
            }
            "retag" => {
                // retag <n> <client j> [tsoff]: same ciphertext, h tag of client j's current group id (original or chosen timestamp)
                let e = self.events[u(t[1]) as usize].clone();
                let j = u(t[2]) as usize;
                let nid = {
                    let gid = self.clients[j].gid.clone();
                    let mdk = self.clients[j].mdk.take().unwrap();
                    let r = with_mdk!(&mdk, |m| gid.and_then(|g| m.get_group(&g).ok().flatten()).map(|g| g.nostr_group_id));
                    self.clients[j].mdk = Some(mdk);
                    r
                };
                match nid {
                    None => "err:NoGroup".into(),
                    Some(n) => {
                        let ne = EventBuilder::new(e.kind, e.content.clone())
                            .tag(Tag::custom(TagKind::h(), [hex::encode(n)]))
                            .custom_created_at(if t.len() > 3 { Timestamp::from(self.t0 + u(t[3])) } else { e.created_at })
                            .sign_with_keys(&Keys::generate())
                            .unwrap();
                        self.push_event(ne)
                    }
                }
            }
            "advremove" => {
                // advremove <i> <j> <tsoff>: member i builds a Remove(j) COMMIT with OpenMLS directly (bypassing
                // mdk's admin check), discards its own pending commit, and publishes the commit like mdk would
                use openmls::prelude::MlsGroup;
                use openmls_basic_credential::SignatureKeyPair;
                use tls_codec::Serialize as _;
                let i = u(t[1]) as usize;
                let target = self.clients[u(t[2]) as usize].keys.public_key();
                let gid = match self.clients[i].gid.clone() { Some(g) => g, None => return "err:NoGroup".into() };
                let ts = self.t0 + u(t[3]);
                let mdk = self.clients[i].mdk.take().unwrap();
                let r: Option<Event> = with_mdk!(&mdk, |m| (|| {
                    let storage = m.provider.storage();
                    let rec = m.get_group(&gid).ok()??;
                    let mut mg = MlsGroup::load(storage, gid.inner()).ok()??;
                    let own = mg.own_leaf()?.clone();
                    let signer = SignatureKeyPair::read(storage, own.signature_key().as_slice(), mg.ciphersuite().signature_algorithm())?;
                    let idx = mg.members().find(|mem| {
                        openmls::prelude::BasicCredential::try_from(mem.credential.clone()).ok().map(|c| c.identity().to_vec()) == Some(target.to_bytes().to_vec())
                    })?.index;
                    let sec = mg.export_secret(m.provider.crypto(), "nostr", b"nostr", 32).ok()?;
                    let (msg, _, _) = mg.remove_members(&m.provider, &signer, &[idx]).ok()?;
                    let bytes = msg.tls_serialize_detached().ok()?;
                    let _ = mg.clear_pending_commit(storage);
                    let keys = Keys::new(nostr::SecretKey::from_slice(&sec).ok()?);
                    let content = nostr::nips::nip44::encrypt(keys.secret_key(), &keys.public_key, &bytes, nostr::nips::nip44::Version::default()).ok()?;
                    EventBuilder::new(Kind::MlsGroupMessage, content)
                        .tag(Tag::custom(TagKind::h(), [hex::encode(rec.nostr_group_id)]))
                        .custom_created_at(Timestamp::from(ts))
                        .sign_with_keys(&Keys::generate())
                        .ok()
                })());
                self.clients[i].mdk = Some(mdk);
                match r {
                    Some(ev) => self.push_event(ev),
                    None => "err:Craft".into(),
                }
            }
            "advgce" => {
                // advgce <i> <tsoff>: member i builds a GroupContextExtensions COMMIT with OpenMLS directly in which the
                // group-data extension names ITSELF in place of an admin (byte-level swap of one 32-byte admin key),
                // discards its own pending commit, and publishes the commit like mdk would
                use openmls::prelude::{Extension, MlsGroup, UnknownExtension};
                use openmls_basic_credential::SignatureKeyPair;
                use tls_codec::Serialize as _;
                let i = u(t[1]) as usize;
                let own_pk = self.clients[i].keys.public_key();
                let gid = match self.clients[i].gid.clone() { Some(g) => g, None => return "err:NoGroup".into() };
                let ts = self.t0 + u(t[2]);
                let mdk = self.clients[i].mdk.take().unwrap();
                let r: Option<Event> = with_mdk!(&mdk, |m| (|| {
                    let storage = m.provider.storage();
                    let rec = m.get_group(&gid).ok()??;
                    let mut mg = MlsGroup::load(storage, gid.inner()).ok()??;
                    let own = mg.own_leaf()?.clone();
                    let signer = SignatureKeyPair::read(storage, own.signature_key().as_slice(), mg.ciphersuite().signature_algorithm())?;
                    let sec = mg.export_secret(m.provider.crypto(), "nostr", b"nostr", 32).ok()?;
                    let victim = rec.admin_pubkeys.iter().find(|pk| **pk != own_pk)?.to_bytes();
                    let mut extensions = mg.extensions().clone();
                    let mut swapped = None;
                    for e in extensions.iter() {
                        if let Extension::Unknown(ty, UnknownExtension(bytes)) = e {
                            if let Some(pos) = bytes.windows(32).position(|w| w == victim) {
                                let mut b = bytes.clone();
                                b[pos..pos + 32].copy_from_slice(&own_pk.to_bytes());
                                swapped = Some(Extension::Unknown(*ty, UnknownExtension(b)));
                            }
                        }
                    }
                    extensions.add_or_replace(swapped?).ok()?;
                    let (msg, _, _) = mg.update_group_context_extensions(&m.provider, extensions, &signer).ok()?;
                    let bytes = msg.tls_serialize_detached().ok()?;
                    let _ = mg.clear_pending_commit(storage);
                    let keys = Keys::new(nostr::SecretKey::from_slice(&sec).ok()?);
                    let content = nostr::nips::nip44::encrypt(keys.secret_key(), &keys.public_key, &bytes, nostr::nips::nip44::Version::default()).ok()?;
                    EventBuilder::new(Kind::MlsGroupMessage, content)
                        .tag(Tag::custom(TagKind::h(), [hex::encode(rec.nostr_group_id)]))
                        .custom_created_at(Timestamp::from(ts))
                        .sign_with_keys(&Keys::generate())
                        .ok()
                })());
                self.clients[i].mdk = Some(mdk);
                match r {
                    Some(ev) => self.push_event(ev),
                    None => "err:Craft".into(),
                }
            }
            "advident" => {
                // advident <i> <tsoff>: member i builds a COMMIT with OpenMLS directly whose update path re-binds ITS OWN leaf to
                // another Nostr identity (fresh BasicCredential + fresh signature key: `self_update_with_new_signer`), discards
                // its own pending commit, and publishes the commit like mdk would.  The commit carries no proposal, so for mdk's
                // authorisation it is a pure self-update (any member may send one): `validate_commit_identities` is the only guard.
                // Implementation-only probe of C05's last sentence (vlib/c05ident.py); the model knows no such commit.
                use openmls::prelude::{BasicCredential, CredentialWithKey, LeafNodeParameters, MlsGroup, NewSignerBundle};
                use openmls_basic_credential::SignatureKeyPair;
                use tls_codec::Serialize as _;
                let i = u(t[1]) as usize;
                let gid = match self.clients[i].gid.clone() { Some(g) => g, None => return "err:NoGroup".into() };
                let ts = self.t0 + u(t[2]);
                let mdk = self.clients[i].mdk.take().unwrap();
                let r: Option<Event> = with_mdk!(&mdk, |m| (|| {
                    let storage = m.provider.storage();
                    let rec = m.get_group(&gid).ok()??;
                    let mut mg = MlsGroup::load(storage, gid.inner()).ok()??;
                    let own = mg.own_leaf()?.clone();
                    let signer = SignatureKeyPair::read(storage, own.signature_key().as_slice(), mg.ciphersuite().signature_algorithm())?;
                    let sec = mg.export_secret(m.provider.crypto(), "nostr", b"nostr", 32).ok()?;
                    let foreign = Keys::generate().public_key().to_bytes().to_vec();
                    let new_signer = SignatureKeyPair::new(mg.ciphersuite().signature_algorithm()).ok()?;
                    let cwk = CredentialWithKey { credential: BasicCredential::new(foreign).into(), signature_key: new_signer.public().into() };
                    let bundle = mg
                        .self_update_with_new_signer(&m.provider, &signer, NewSignerBundle { signer: &new_signer, credential_with_key: cwk }, LeafNodeParameters::default())
                        .ok()?;
                    let bytes = bundle.commit().tls_serialize_detached().ok()?;
                    let _ = mg.clear_pending_commit(storage);
                    let keys = Keys::new(nostr::SecretKey::from_slice(&sec).ok()?);
                    let content = nostr::nips::nip44::encrypt(keys.secret_key(), &keys.public_key, &bytes, nostr::nips::nip44::Version::default()).ok()?;
                    EventBuilder::new(Kind::MlsGroupMessage, content)
                        .tag(Tag::custom(TagKind::h(), [hex::encode(rec.nostr_group_id)]))
                        .custom_created_at(Timestamp::from(ts))
                        .sign_with_keys(&Keys::generate())
                        .ok()
                })());
                self.clients[i].mdk = Some(mdk);
                match r {
                    Some(ev) => self.push_event(ev),
                    None => "err:Craft".into(),
                }
            }
            "leaves" => {
                // leaves <i>: client i's ratchet tree as mdk reports it (`get_ratchet_tree_info`): `leaf:identity,…` (identity = client number, `x` = nobody's)
                let i = u(t[1]) as usize;
                let gid = match self.clients[i].gid.clone() { Some(g) => g, None => return "err:NoGroup".into() };
                let mdk = self.clients[i].mdk.take().unwrap();
                let r = with_mdk!(&mdk, |m| m.get_ratchet_tree_info(&gid));
                self.clients[i].mdk = Some(mdk);
                match r {
                    Ok(info) => {
                        let l: Vec<String> = info.leaf_nodes.iter().map(|n| {
                            let who = hex::decode(&n.credential_identity).ok().and_then(|b| PublicKey::from_slice(&b).ok()).map(|pk| self.who(&pk)).unwrap_or_else(|| "bad".into());
                            format!("{}:{}", n.index, who)
                        }).collect();
                        format!("leaves {}", if l.is_empty() { "-".into() } else { l.join(",") })
                    }
                    Err(e) => err_kind(&e),
                }
            }
            "advid" => {
                // advid <i> <mode> <what> <tsoff>: member i crafts with OpenMLS directly (C05 identity correspondence, vlib/c05ident.py)
                //   path  <same|other|c<j>|bad>   a COMMIT without proposals whose update path carries a FRESH signature key and the
                //                                 identity: its own / a fresh foreign one / client j's / 31 bytes that are no key
                //   pathk <same|other|c<j>>       the same with the OLD signature key kept (only the credential's identity changes)
                //   uprop <same|other|c<j>>       a stand-alone Update PROPOSAL (old signature key) with that identity; the queued
                //                                 proposal is kept under its event number for `commitref`
                //   commitref <ev>                a COMMIT that carries the Update proposal of event <ev> BY REFERENCE
                // `same` keeps the pending commit (and stores the fresh signer) so that `merge <i>` applies it; every other mode
                // discards the crafter's pending commit.  Proposals are taken out of the crafter's store again.
                use openmls::prelude::{BasicCredential, CredentialWithKey, LeafNodeParameters, MlsGroup, NewSignerBundle};
                use openmls_basic_credential::SignatureKeyPair;
                use tls_codec::Serialize as _;
                let i = u(t[1]) as usize;
                let mode = t[2];
                let what = t[3];
                let gid = match self.clients[i].gid.clone() { Some(g) => g, None => return "err:NoGroup".into() };
                let ts = self.t0 + u(t[4]);
                let own_pk = self.clients[i].keys.public_key();
                let ident: Vec<u8> = if what == "same" { own_pk.to_bytes().to_vec() }
                    else if what == "other" { Keys::generate().public_key().to_bytes().to_vec() }
                    else if what == "bad" { vec![7u8; 31] }
                    else if let Some(j) = what.strip_prefix('c') { self.clients[u(j) as usize].keys.public_key().to_bytes().to_vec() }
                    else { vec![] };
                let kept: Option<(openmls::prelude::QueuedProposal, openmls::ciphersuite::hash_ref::ProposalRef)> = if mode == "commitref" { self.qprops.get(&(u(what) as usize)).cloned() } else { None };
                let mdk = self.clients[i].mdk.take().unwrap();
                let r: Option<(Event, Option<(openmls::prelude::QueuedProposal, openmls::ciphersuite::hash_ref::ProposalRef)>)> = with_mdk!(&mdk, |m| (|| {
                    let storage = m.provider.storage();
                    let rec = m.get_group(&gid).ok()??;
                    let mut mg = MlsGroup::load(storage, gid.inner()).ok()??;
                    let own = mg.own_leaf()?.clone();
                    let signer = SignatureKeyPair::read(storage, own.signature_key().as_slice(), mg.ciphersuite().signature_algorithm())?;
                    let sec = mg.export_secret(m.provider.crypto(), "nostr", b"nostr", 32).ok()?;
                    let mut qp_out = None;
                    let bytes = match mode {
                        "path" => {
                            let new_signer = SignatureKeyPair::new(mg.ciphersuite().signature_algorithm()).ok()?;
                            let cwk = CredentialWithKey { credential: BasicCredential::new(ident.clone()).into(), signature_key: new_signer.public().into() };
                            let bundle = mg
                                .self_update_with_new_signer(&m.provider, &signer, NewSignerBundle { signer: &new_signer, credential_with_key: cwk }, LeafNodeParameters::default())
                                .ok()?;
                            let b = bundle.commit().tls_serialize_detached().ok()?;
                            if what == "same" { new_signer.store(storage).ok()?; } else { let _ = mg.clear_pending_commit(storage); }
                            b
                        }
                        "pathk" => {
                            let cwk = CredentialWithKey { credential: BasicCredential::new(ident.clone()).into(), signature_key: signer.public().into() };
                            let bundle = mg.self_update(&m.provider, &signer, LeafNodeParameters::builder().with_credential_with_key(cwk).build()).ok()?;
                            let b = bundle.commit().tls_serialize_detached().ok()?;
                            if what != "same" { let _ = mg.clear_pending_commit(storage); }
                            b
                        }
                        "uprop" => {
                            let cwk = CredentialWithKey { credential: BasicCredential::new(ident.clone()).into(), signature_key: signer.public().into() };
                            let (msg, pref) = mg.propose_self_update(&m.provider, &signer, LeafNodeParameters::builder().with_credential_with_key(cwk).build()).ok()?;
                            qp_out = mg.pending_proposals().find(|q| matches!(q.proposal(), openmls::prelude::Proposal::Update(_))).cloned().map(|q| (q, pref.clone()));
                            let b = msg.tls_serialize_detached().ok()?;
                            let _ = mg.remove_pending_proposal(storage, &pref);
                            b
                        }
                        "commitref" => {
                            let (qp, pref) = kept.clone()?;
                            mg.store_pending_proposal(storage, qp).ok()?;
                            let res = mg.commit_to_pending_proposals(&m.provider, &signer);
                            let b = match res { Ok((msg, _, _)) => msg.tls_serialize_detached().ok(), Err(_) => None };
                            let _ = mg.clear_pending_commit(storage);
                            let _ = mg.remove_pending_proposal(storage, &pref);
                            b?
                        }
                        _ => return None,
                    };
                    let keys = Keys::new(nostr::SecretKey::from_slice(&sec).ok()?);
                    let content = nostr::nips::nip44::encrypt(keys.secret_key(), &keys.public_key, &bytes, nostr::nips::nip44::Version::default()).ok()?;
                    let ev = EventBuilder::new(Kind::MlsGroupMessage, content)
                        .tag(Tag::custom(TagKind::h(), [hex::encode(rec.nostr_group_id)]))
                        .custom_created_at(Timestamp::from(ts))
                        .sign_with_keys(&Keys::generate())
                        .ok()?;
                    Some((ev, qp_out))
                })());
                self.clients[i].mdk = Some(mdk);
                match r {
                    Some((ev, qp)) => {
                        let out = self.push_event(ev);
                        if let Some(q) = qp {
                            self.qprops.insert(self.events.len() - 1, q);
                        }
                        out
                    }
                    None => "err:Craft".into(),
                }
            }
            "advupdate" => {
                // advupdate <i> <tsoff>: member i builds a stand-alone MLS Update PROPOSAL with OpenMLS directly (the MDK
                // API never sends one), removes it from its own proposal store again, and publishes it like mdk would
                use openmls::prelude::{LeafNodeParameters, MlsGroup};
                use openmls_basic_credential::SignatureKeyPair;
                use tls_codec::Serialize as _;
                let i = u(t[1]) as usize;
                let gid = match self.clients[i].gid.clone() { Some(g) => g, None => return "err:NoGroup".into() };
                let ts = self.t0 + u(t[2]);
                let mdk = self.clients[i].mdk.take().unwrap();
                let r: Option<Event> = with_mdk!(&mdk, |m| (|| {
                    let storage = m.provider.storage();
                    let rec = m.get_group(&gid).ok()??;
                    let mut mg = MlsGroup::load(storage, gid.inner()).ok()??;
                    let own = mg.own_leaf()?.clone();
                    let signer = SignatureKeyPair::read(storage, own.signature_key().as_slice(), mg.ciphersuite().signature_algorithm())?;
                    let sec = mg.export_secret(m.provider.crypto(), "nostr", b"nostr", 32).ok()?;
                    let (msg, pref) = mg.propose_self_update(&m.provider, &signer, LeafNodeParameters::default()).ok()?;
                    let bytes = msg.tls_serialize_detached().ok()?;
                    let _ = mg.remove_pending_proposal(storage, &pref);   // only this proposal: whatever else is queued stays
                    let keys = Keys::new(nostr::SecretKey::from_slice(&sec).ok()?);
                    let content = nostr::nips::nip44::encrypt(keys.secret_key(), &keys.public_key, &bytes, nostr::nips::nip44::Version::default()).ok()?;
                    EventBuilder::new(Kind::MlsGroupMessage, content)
                        .tag(Tag::custom(TagKind::h(), [hex::encode(rec.nostr_group_id)]))
                        .custom_created_at(Timestamp::from(ts))
                        .sign_with_keys(&Keys::generate())
                        .ok()
                })());
                self.clients[i].mdk = Some(mdk);
                match r {
                    Some(ev) => self.push_event(ev),
                    None => "err:Craft".into(),
                }
            }
            "advprop" => {
                // advprop <i> <remove j | add kp | gce - | psk -> <tsoff>: member i builds a stand-alone MLS PROPOSAL with OpenMLS
                // directly (Remove of member j — possibly itself —, Add of key package kp, GroupContextExtensions re-stating
                // the current extensions, external PreSharedKey), takes exactly that proposal out of its own store again, and
                // publishes it like mdk would
                use openmls::prelude::{LeafNodeIndex, MlsGroup};
                use openmls::schedule::PreSharedKeyId;
                use openmls_basic_credential::SignatureKeyPair;
                use tls_codec::Serialize as _;
                let i = u(t[1]) as usize;
                let what = t[2];
                let gid = match self.clients[i].gid.clone() { Some(g) => g, None => return "err:NoGroup".into() };
                let ts = self.t0 + u(t[4]);
                let target = if what == "remove" { Some(self.clients[u(t[3]) as usize].keys.public_key()) } else { None };
                let kp_ev = if what == "add" { Some(self.kps[u(t[3]) as usize].1.clone()) } else { None };
                let mdk = self.clients[i].mdk.take().unwrap();
                let r: Option<Event> = with_mdk!(&mdk, |m| (|| {
                    let storage = m.provider.storage();
                    let rec = m.get_group(&gid).ok()??;
                    let mut mg = MlsGroup::load(storage, gid.inner()).ok()??;
                    let own = mg.own_leaf()?.clone();
                    let signer = SignatureKeyPair::read(storage, own.signature_key().as_slice(), mg.ciphersuite().signature_algorithm())?;
                    let sec = mg.export_secret(m.provider.crypto(), "nostr", b"nostr", 32).ok()?;
                    let (msg, pref) = match what {
                        "remove" => {
                            let tb = target?.to_bytes().to_vec();
                            let idx: LeafNodeIndex = mg.members().find(|mem| {
                                openmls::prelude::BasicCredential::try_from(mem.credential.clone()).ok().map(|c| c.identity().to_vec()) == Some(tb.clone())
                            })?.index;
                            mg.propose_remove_member(&m.provider, &signer, idx).ok()?
                        }
                        "add" => {
                            let kp = m.parse_key_package(kp_ev.as_ref()?).ok()?;
                            mg.propose_add_member(&m.provider, &signer, &kp).ok()?
                        }
                        "gce" => {
                            let ext = mg.extensions().clone();
                            mg.propose_group_context_extensions(&m.provider, ext, &signer).ok()?
                        }
                        "psk" => {
                            let id = PreSharedKeyId::external(b"verif-psk".to_vec(), vec![7u8; 32]);
                            mg.propose_external_psk(&m.provider, &signer, id).ok()?
                        }
                        _ => return None,
                    };
                    let bytes = msg.tls_serialize_detached().ok()?;
                    let _ = mg.remove_pending_proposal(storage, &pref);
                    let keys = Keys::new(nostr::SecretKey::from_slice(&sec).ok()?);
                    let content = nostr::nips::nip44::encrypt(keys.secret_key(), &keys.public_key, &bytes, nostr::nips::nip44::Version::default()).ok()?;
                    EventBuilder::new(Kind::MlsGroupMessage, content)
                        .tag(Tag::custom(TagKind::h(), [hex::encode(rec.nostr_group_id)]))
                        .custom_created_at(Timestamp::from(ts))
                        .sign_with_keys(&Keys::generate())
                        .ok()
                })());
                self.clients[i].mdk = Some(mdk);
                match r {
                    Some(ev) => self.push_event(ev),
                    None => "err:Craft".into(),
                }
            }
            "restart" => {
                let j = u(t[1]) as usize;
                if self.clients[j].sql_path.is_none() {
                    return "skip".into();
                }
                let old = self.clients[j].mdk.take();
                drop(old);
                let cfg = self.clients[j].cfg.clone();
                let path = self.clients[j].sql_path.clone();
                self.clients[j].mdk = Some(self.open_mdk("sql", &path, &cfg));
                "ok".into()
            }
            "fp" => "fp".into(),
            _ => "bad-op".into(),
        }
    }
}

pub fn main(_args: &[String]) -> i32 {
    std::panic::set_hook(Box::new(|_| {}));
    if std::env::var("VH_TRACE").is_ok() {
        // diagnostics only: mdk / openmls log records on stderr
        let _ = tracing_subscriber::fmt().with_env_filter(std::env::var("VH_TRACE").unwrap()).with_writer(std::io::stderr).try_init();
    }
    let stdin = io::stdin();
    let out = io::stdout();
    let mut out = out.lock();
    let mut world = World::new();
    for line in stdin.lock().lines() {
        let line = line.unwrap();
        let t: Vec<&str> = line.split_whitespace().collect();
        if t.is_empty() {
            continue;
        }
        if t[0] == "world" {
            world = World::new();
            writeln!(out, "ok").unwrap();
            out.flush().unwrap();
            continue;
        }
        let r = catch_unwind(AssertUnwindSafe(|| world.exec(&t)));
        let res = match r {
            Ok(s) => s,
            Err(_) => {
                // a panic may have left a client without its MDK handle; nothing sensible can follow
                "panic".into()
            }
        };
        // fingerprint of the acting client (second token is the client index for client-directed ops)
        let fp = match t[0] {
            "client" | "kp" | "create" | "welcome" | "accept" | "decline" | "send" | "selfupdate" | "add" | "remove" | "leave" | "data" | "merge" | "clear" | "deliver" | "restart" | "fp" | "advremove" | "advgce" | "advupdate" | "advprop" | "advident" | "advid" | "leaves" => {
                let ci = u(t[1]) as usize;
                if ci < world.clients.len() && world.clients[ci].mdk.is_some() {
                    catch_unwind(AssertUnwindSafe(|| world.fingerprint(ci))).unwrap_or_else(|_| "fp-panic".into())
                } else {
                    "-".into()
                }
            }
            _ => "-".into(),
        };
        writeln!(out, "{res} | {fp}").unwrap();
        out.flush().unwrap();
    }
    0
}
