//! `appmsg` engine (property C04): real clients (via `world::World`) in two groups plus an outsider, honest
//! application messages through `create_message`, and ADVERSARIAL application messages a member crafts with
//! OpenMLS directly on its own group state (`MlsGroup::load(mdk.provider.storage(), …)`, own signer,
//! `MlsGroup::create_message`) around a rumor JSON whose every field it chooses — `pubkey` (own / another
//! member's / an outsider's), a pre-set `id` (right, another stored message's, random), kind, tags,
//! created_at, content — wrapped like mdk does (NIP-44 under an exporter secret, ephemeral signer, `h` tag)
//! under its own or ANOTHER group's secret / tag; replays, re-wrappings and re-taggings of captured events.
//!
//! Line protocol (one command per line, one observation per line `<result> | <message tables>`):
//!   setup <mem|sql>       clients 0=A 1=B 2=C 3=R(receiver under test, given backend) 4=D 5=E
//!                         g0 = {A,B,C,R} (D was a member, removed, and never saw its removal: a stale ex-member)
//!                         g1 = {C,B,R}   g2 = {E}            (B is the adversarial member of g0 and g1)
//!   send <i> <g> <ts> <kind> <tags> <content>                        honest create_message → `ev=<n> id=<desc>`
//!   adv <i> <g> <pk> <id> <ts> <kind> <tags> <content> <wrapg>       crafted → `ev=<n> id=<desc>`
//!        pk: own | c<k> | out<k>        id: none | ok | m<ev> | raw<k>      wrapg: group whose secret + h tag wrap it
//!   rewrap <ev>           same content and tags, fresh signer            → `ev=<n>`
//!   retag <ev> <g>        same content, h tag of g                        → `ev=<n>`
//!   deliver <j> <ev>      process_message at j                            → `app:<id desc>` | `refused:<kind>`
//!   view <j>
//! tables: `G<g>[row;row…]`, row = `id=<self|h(a,ts,k,t,c)|raw<k>|unk>,ok=<0|1>,ev=<0|1>,a=<client|out<k>|x>,ts=,k=,t=,c=,w=<ev|x>`
//!   ok: the stored id is the NIP-01 hash of the stored columns; ev: the stored event JSON agrees with the columns and id

use std::collections::HashMap;
use std::io::{self, BufRead, Write};
use std::panic::{AssertUnwindSafe, catch_unwind};

use mdk_core::groups::NostrGroupConfigData;
use mdk_core::messages::MessageProcessingResult;
use mdk_storage_traits::GroupId;
use mdk_storage_traits::groups::Pagination;
use nostr::{Event, EventBuilder, EventId, JsonUtil, Keys, Kind, PublicKey, RelayUrl, Tag, TagKind, Tags, Timestamp, UnsignedEvent};
use openmls::prelude::MlsGroup;
use openmls_basic_credential::SignatureKeyPair;
use openmls_traits::OpenMlsProvider;
use tls_codec::Serialize as _;

use crate::world::{Mdk, World};

macro_rules! wm {
    ($m:expr, |$s:ident| $e:expr) => {
        match $m {
            Mdk::Mem($s) => $e,
            Mdk::Sql($s) => $e,
        }
    };
}

struct Ev {
    event: Event,
}

pub struct App {
    w: World,
    gids: Vec<GroupId>,
    nids: Vec<[u8; 32]>,
    events: Vec<Ev>,
    rumor_ids: Vec<Option<EventId>>, // per event: the NIP-01 id of the rumor body it carries
    known: HashMap<EventId, String>, // nip01 ids of every rumor body in play → `h(a,ts,k,t,c)`
    raws: HashMap<EventId, usize>,
    outs: Vec<Keys>,
}

fn u(s: &str) -> u64 {
    s.parse().unwrap_or_else(|_| panic!("nat expected: {s}"))
}

fn tags_of(tok: u64, c2: &PublicKey) -> Tags {
    let mut v: Vec<Tag> = vec![];
    match tok {
        0 => {}
        1 => v.push(Tag::custom(TagKind::t(), ["verif"])),
        2 => {
            v.push(Tag::custom(TagKind::e(), ["11".repeat(32)]));
            v.push(Tag::custom(TagKind::p(), [c2.to_hex()]));
        }
        3 => {
            for i in 0..40 {
                v.push(Tag::custom(TagKind::t(), [format!("tag{i}")]));
            }
        }
        _ => v.push(Tag::custom(TagKind::Custom("x".into()), ["a\"b\\c\n\u{2028}é".to_string(), String::new()])),
    }
    Tags::from_list(v)
}

fn content_of(tok: u64) -> String {
    match tok {
        900 => String::new(),
        901 => "z".repeat(5000),
        902 => "quote\" backslash\\ newline\n tab\t ls\u{2028} é ✓ \u{1}".to_string(),
        n => format!("msg{n}"),
    }
}

impl App {
    fn new() -> Self {
        App { w: World::new(), gids: vec![], nids: vec![], events: vec![], rumor_ids: vec![], known: HashMap::new(), raws: HashMap::new(), outs: vec![] }
    }

    /// the key named by the `p` tag of tag shape 2: never a client (EventBuilder drops a p tag naming the author)
    fn ptag(&self) -> PublicKey {
        self.outs.get(2).map(|k| k.public_key()).unwrap_or_else(|| Keys::generate().public_key())
    }

    fn pk(&self, i: usize) -> PublicKey {
        self.w.clients[i].keys.public_key()
    }

    fn who(&self, pk: &PublicKey) -> String {
        if let Some(i) = self.w.clients.iter().position(|c| c.keys.public_key() == *pk) {
            return i.to_string();
        }
        if let Some(k) = self.outs.iter().position(|o| o.public_key() == *pk) {
            return format!("out{k}");
        }
        "x".into()
    }

    fn tags_tok(&self, t: &Tags) -> String {
        for k in 0..5u64 {
            if tags_of(k, &self.ptag()) == *t {
                return k.to_string();
            }
        }
        "?".into()
    }

    fn content_tok(&self, c: &str) -> String {
        for k in [900u64, 901, 902] {
            if content_of(k) == c {
                return k.to_string();
            }
        }
        c.strip_prefix("msg").map(|x| x.to_string()).unwrap_or_else(|| "?".into())
    }

    fn body_desc(&self, pk: &PublicKey, ts: u64, kind: u16, tags: &Tags, content: &str) -> String {
        format!("h({},{},{},{},{})", self.who(pk), ts, kind, self.tags_tok(tags), self.content_tok(content))
    }

    fn id_desc(&self, id: &EventId) -> String {
        if let Some(d) = self.known.get(id) {
            return d.clone();
        }
        if let Some(k) = self.raws.get(id) {
            return format!("raw{k}");
        }
        "unk".into()
    }

    fn kp(&mut self, i: usize) -> Event {
        let keys = self.w.clients[i].keys.clone();
        let r = wm!(self.w.clients[i].mdk.as_ref().unwrap(), |m| m.create_key_package_for_event(&keys.public_key(), vec![RelayUrl::parse("wss://relay1.example.com").unwrap()]));
        let (content, tags, _) = r.expect("key package");
        EventBuilder::new(Kind::MlsKeyPackage, content).tags(tags).sign_with_keys(&keys).unwrap()
    }

    fn create_group(&mut self, creator: usize, members: &[usize], name: &str) {
        let kps: Vec<Event> = members.iter().map(|j| self.kp(*j)).collect();
        let cfg = NostrGroupConfigData::new(name.to_string(), "d".to_string(), None, None, None, vec![RelayUrl::parse("wss://relay1.example.com").unwrap()], vec![self.pk(creator)]);
        let pk = self.pk(creator);
        let res = wm!(self.w.clients[creator].mdk.as_ref().unwrap(), |m| {
            let r = m.create_group(&pk, kps, cfg).expect("create_group");
            m.merge_pending_commit(&r.group.mls_group_id).expect("merge");
            r
        });
        let gid = res.group.mls_group_id.clone();
        self.gids.push(gid.clone());
        self.nids.push(res.group.nostr_group_id);
        for (k, j) in members.iter().enumerate() {
            let rumor = &res.welcome_rumors[k];
            let mut idb = [0xEEu8; 32];
            idb[31] = (self.gids.len() * 16 + k) as u8;
            let wid = EventId::from_byte_array(idb);
            wm!(self.w.clients[*j].mdk.as_ref().unwrap(), |m| {
                let w = m.process_welcome(&wid, rumor).expect("process_welcome");
                m.accept_welcome(&w).expect("accept_welcome");
            });
        }
    }

    fn setup(&mut self, backend: &str) -> String {
        *self = App::new();
        for i in 0..7 {
            let b = if i == 3 { backend } else { "mem" };
            let line = format!("client {i} {b} 5");
            let t: Vec<&str> = line.split_whitespace().collect();
            self.w.exec(&t);
        }
        for _ in 0..3 {
            self.outs.push(Keys::generate());
        }
        self.create_group(0, &[1, 2, 3, 4], "g0");
        self.create_group(2, &[1, 3], "g1");
        self.create_group(5, &[], "g2");
        // A removes D; B, C, R apply the commit; D never sees it (a stale ex-member that still holds old keys)
        let (g0, pk4) = (self.gids[0].clone(), self.pk(4));
        let commit = wm!(self.w.clients[0].mdk.as_ref().unwrap(), |m| {
            let r = m.remove_members(&g0, &[pk4]).expect("remove");
            m.merge_pending_commit(&g0).expect("merge");
            r.evolution_event
        });
        for j in [1usize, 2, 3] {
            let ok = wm!(self.w.clients[j].mdk.as_ref().unwrap(), |m| matches!(m.process_message(&commit), Ok(MessageProcessingResult::Commit { .. })));
            assert!(ok, "removal commit must apply at {j}");
        }
        "ok".into()
    }

    /// `swap`: A removes B (client 1) from g0 and then adds F (client 6); C, R (and F through its welcome) follow,
    /// B is not told (a second stale ex-member).  OpenMLS puts the new member into the leftmost blank leaf, so F
    /// now occupies the leaf B's earlier ciphertexts were sent from.
    fn swap(&mut self) -> String {
        let g0 = self.gids[0].clone();
        let pk1 = self.pk(1);
        let c1 = wm!(self.w.clients[0].mdk.as_ref().unwrap(), |m| {
            let r = m.remove_members(&g0, &[pk1]).expect("remove");
            m.merge_pending_commit(&g0).expect("merge");
            r.evolution_event
        });
        for j in [2usize, 3] {
            let ok = wm!(self.w.clients[j].mdk.as_ref().unwrap(), |m| matches!(m.process_message(&c1), Ok(MessageProcessingResult::Commit { .. })));
            assert!(ok, "swap: removal commit must apply at {j}");
        }
        let kp = self.kp(6);
        let res = wm!(self.w.clients[0].mdk.as_ref().unwrap(), |m| {
            let r = m.add_members(&g0, &[kp]).expect("add");
            m.merge_pending_commit(&g0).expect("merge");
            r
        });
        for j in [2usize, 3] {
            let ok = wm!(self.w.clients[j].mdk.as_ref().unwrap(), |m| matches!(m.process_message(&res.evolution_event), Ok(MessageProcessingResult::Commit { .. })));
            assert!(ok, "swap: add commit must apply at {j}");
        }
        if let Some(rumors) = &res.welcome_rumors {
            let wid = EventId::from_byte_array([0xEDu8; 32]);
            wm!(self.w.clients[6].mdk.as_ref().unwrap(), |m| {
                let w = m.process_welcome(&wid, &rumors[0]).expect("process_welcome");
                m.accept_welcome(&w).expect("accept_welcome");
            });
        }
        "ok".into()
    }

    fn register_body(&mut self, pk: &PublicKey, ts: u64, kind: u16, tags: &Tags, content: &str) -> EventId {
        let id = EventId::new(pk, &Timestamp::from(ts), &Kind::from(kind), tags, content);
        let d = self.body_desc(pk, ts, kind, tags, content);
        self.known.insert(id, d);
        id
    }

    fn send(&mut self, t: &[&str]) -> String {
        let (i, g) = (u(t[1]) as usize, u(t[2]) as usize);
        let (ts, kind, tags, content) = (u(t[3]), u(t[4]) as u16, tags_of(u(t[5]), &self.ptag()), content_of(u(t[6])));
        let pk = self.pk(i);
        let id = self.register_body(&pk, ts, kind, &tags, &content);
        let mut rumor = EventBuilder::new(Kind::from(kind), content).tags(tags).custom_created_at(Timestamp::from(ts)).build(pk);
        rumor.ensure_id();
        let gid = self.gids[g].clone();
        let r = wm!(self.w.clients[i].mdk.as_ref().unwrap(), |m| m.create_message(&gid, rumor));
        match r {
            Ok(ev) => {
                self.events.push(Ev { event: ev });
                format!("ev={} id={}", self.events.len() - 1, self.id_desc(&id))
            }
            Err(e) => format!("err:{}", variant(&format!("{e:?}"))),
        }
    }

    /// exporter secret ("nostr" label) of client i's CURRENT state of group g
    fn exporter(&self, i: usize, g: usize) -> Option<[u8; 32]> {
        let gid = &self.gids[g];
        wm!(self.w.clients[i].mdk.as_ref().unwrap(), |m| {
            let mg = MlsGroup::load(m.provider.storage(), gid.inner()).ok()??;
            let s = mg.export_secret(m.provider.crypto(), "nostr", b"nostr", 32).ok()?;
            s.try_into().ok()
        })
    }

    fn wrap(&self, secret: &[u8; 32], nid: &[u8; 32], bytes: &[u8]) -> Event {
        let keys = Keys::new(nostr::SecretKey::from_slice(secret).unwrap());
        let content = nostr::nips::nip44::encrypt(keys.secret_key(), &keys.public_key, bytes, nostr::nips::nip44::Version::default()).unwrap();
        EventBuilder::new(Kind::MlsGroupMessage, content).tag(Tag::custom(TagKind::h(), [hex::encode(nid)])).sign_with_keys(&Keys::generate()).unwrap()
    }

    fn adv(&mut self, t: &[&str]) -> String {
        let (i, g) = (u(t[1]) as usize, u(t[2]) as usize);
        let pk = match t[3] {
            "own" => self.pk(i),
            x if x.starts_with("out") => self.outs[u(&x[3..]) as usize].public_key(),
            x => self.pk(u(&x[1..]) as usize),
        };
        let (ts, kind, tags, content) = (u(t[5]), u(t[6]) as u16, tags_of(u(t[7]), &self.ptag()), content_of(u(t[8])));
        let wrapg = u(t[9]) as usize;
        let real = self.register_body(&pk, ts, kind, &tags, &content);
        let preset: Option<EventId> = match t[4] {
            "none" => None,
            "ok" => Some(real),
            x if x.starts_with("raw") => {
                let k = u(&x[3..]) as usize;
                let mut b = [0x77u8; 32];
                b[31] = k as u8;
                let id = EventId::from_byte_array(b);
                self.raws.insert(id, k);
                Some(id)
            }
            x => {
                // the (recomputed) id of the rumor carried by event n
                let n = u(&x[1..]) as usize;
                match self.rumor_ids.get(n).copied().flatten() {
                    Some(id) => Some(id),
                    None => return "err:NoSuchEvent".into(),
                }
            }
        };
        let rumor = UnsignedEvent { id: preset, pubkey: pk, created_at: Timestamp::from(ts), kind: Kind::from(kind), tags, content };
        let json = rumor.as_json();
        let gid = self.gids[g].clone();
        let bytes: Option<Vec<u8>> = wm!(self.w.clients[i].mdk.as_ref().unwrap(), |m| {
            (|| {
                let storage = m.provider.storage();
                let mut mg = MlsGroup::load(storage, gid.inner()).ok()??;
                let own = mg.own_leaf()?;
                let signer = SignatureKeyPair::read(storage, own.signature_key().as_slice(), mg.ciphersuite().signature_algorithm())?;
                let out = mg.create_message(&m.provider, &signer, json.as_bytes()).ok()?;
                out.tls_serialize_detached().ok()
            })()
        });
        let Some(bytes) = bytes else { return "err:CannotCraft".into() };
        let Some(secret) = self.exporter(i, wrapg) else { return "err:NoGroup".into() };
        let ev = self.wrap(&secret, &self.nids[wrapg], &bytes);
        self.events.push(Ev { event: ev });
        while self.rumor_ids.len() < self.events.len() {
            self.rumor_ids.push(None);
        }
        let n = self.events.len() - 1;
        self.rumor_ids[n] = Some(real);
        format!("ev={} id={}", n, self.id_desc(&real))
    }

    fn view(&mut self, j: usize) -> String {
        let mut parts = vec![];
        for g in 0..self.gids.len() {
            let gid = self.gids[g].clone();
            let rows = wm!(self.w.clients[j].mdk.as_ref().unwrap(), |m| {
                match m.get_group(&gid) {
                    Ok(Some(_)) => m.get_messages(&gid, Some(Pagination::new(Some(1000), Some(0)))).ok(),
                    _ => None,
                }
            });
            let Some(rows) = rows else { continue };
            let mut rs: Vec<String> = vec![];
            for r in rows {
                let computed = EventId::new(&r.pubkey, &r.created_at, &r.kind, &r.tags, &r.content);
                let ok = computed == r.id;
                let evok = r.event.id == Some(r.id) && r.event.pubkey == r.pubkey && r.event.created_at == r.created_at && r.event.kind == r.kind && r.event.tags == r.tags && r.event.content == r.content && r.event.verify_id().is_ok();
                let idd = if ok { "self".to_string() } else { self.id_desc(&r.id) };
                let w = self.events.iter().position(|e| e.event.id == r.wrapper_event_id).map(|n| n.to_string()).unwrap_or_else(|| "x".into());
                rs.push(format!(
                    "id={},ok={},ev={},a={},ts={},k={},t={},c={},w={}",
                    idd, ok as u8, evok as u8, self.who(&r.pubkey), r.created_at.as_secs(), r.kind.as_u16(), self.tags_tok(&r.tags), self.content_tok(&r.content), w
                ));
            }
            rs.sort();
            parts.push(format!("G{}[{}]", g, rs.join(";")));
        }
        if parts.is_empty() { "-".into() } else { parts.join(" ") }
    }

    fn exec(&mut self, t: &[&str]) -> (String, Option<usize>) {
        match t[0] {
            "setup" => (self.setup(t[1]), Some(3)),
            "send" => {
                let r = self.send(t);
                while self.rumor_ids.len() < self.events.len() {
                    self.rumor_ids.push(None);
                }
                if let Some(n) = r.strip_prefix("ev=").and_then(|x| x.split(' ').next()).and_then(|x| x.parse::<usize>().ok()) {
                    let (i, ts, kind, tags, content) = (u(t[1]) as usize, u(t[3]), u(t[4]) as u16, tags_of(u(t[5]), &self.ptag()), content_of(u(t[6])));
                    self.rumor_ids[n] = Some(EventId::new(&self.pk(i), &Timestamp::from(ts), &Kind::from(kind), &tags, &content));
                }
                (r, Some(u(t[1]) as usize))
            }
            "adv" => (self.adv(t), None),
            "swap" => (self.swap(), None),
            "rewrap" | "retag" => {
                let e = self.events[u(t[1]) as usize].event.clone();
                let tags: Vec<Tag> = if t[0] == "rewrap" { e.tags.iter().cloned().collect() } else { vec![Tag::custom(TagKind::h(), [hex::encode(self.nids[u(t[2]) as usize])])] };
                let ne = EventBuilder::new(e.kind, e.content.clone()).tags(tags).custom_created_at(e.created_at).sign_with_keys(&Keys::generate()).unwrap();
                self.events.push(Ev { event: ne });
                let n = self.events.len() - 1;
                while self.rumor_ids.len() < self.events.len() {
                    self.rumor_ids.push(None);
                }
                self.rumor_ids[n] = self.rumor_ids[u(t[1]) as usize];
                (format!("ev={n}"), None)
            }
            "deliver" => {
                let j = u(t[1]) as usize;
                let ev = self.events[u(t[2]) as usize].event.clone();
                let r = wm!(self.w.clients[j].mdk.as_ref().unwrap(), |m| m.process_message(&ev));
                let s = match r {
                    Ok(MessageProcessingResult::ApplicationMessage(msg)) => {
                        let computed = EventId::new(&msg.pubkey, &msg.created_at, &msg.kind, &msg.tags, &msg.content);
                        format!("app:{}", if computed == msg.id { self.id_desc(&computed) } else { format!("!{}", self.id_desc(&msg.id)) })
                    }
                    Ok(other) => format!("refused:{}", variant(&format!("{other:?}"))),
                    Err(e) => format!("refused:{}", variant(&format!("{e:?}"))),
                };
                (s, Some(j))
            }
            "view" => ("view".into(), Some(u(t[1]) as usize)),
            _ => ("bad-op".into(), None),
        }
    }
}

fn variant(d: &str) -> String {
    d.chars().take_while(|c| c.is_alphanumeric()).collect()
}

pub fn main(_args: &[String]) -> i32 {
    std::panic::set_hook(Box::new(|_| {}));
    let stdin = io::stdin();
    let out = io::stdout();
    let mut out = out.lock();
    let mut app = App::new();
    for line in stdin.lock().lines() {
        let line = line.unwrap();
        let t: Vec<&str> = line.split_whitespace().collect();
        if t.is_empty() || t[0].starts_with('#') {
            continue;
        }
        let r = catch_unwind(AssertUnwindSafe(|| app.exec(&t)));
        let (res, who) = match r {
            Ok(x) => x,
            Err(_) => ("panic".into(), None),
        };
        let view = match who {
            Some(j) if j < app.w.clients.len() && app.w.clients[j].mdk.is_some() && !app.gids.is_empty() => catch_unwind(AssertUnwindSafe(|| app.view(j))).unwrap_or_else(|_| "view-panic".into()),
            _ => "-".into(),
        };
        writeln!(out, "{res} | {view}").unwrap();
        out.flush().unwrap();
    }
    0
}
