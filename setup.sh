#!/bin/sh
# MANIFEST.setup_cmd: build the framework offline from files on disk only.
set -e
cd "$(dirname "$0")"
export CARGO_NET_OFFLINE=true
python3 tools/gen_model.py > /dev/null
(cd lean && lake build MdkVerif mdkdrv)
cp -n /repo/Cargo.lock harness/Cargo.lock 2>/dev/null || true
(cd harness && cargo build --offline --quiet)
echo setup-ok
